import HotstuffModel.Proofs.CommitSeq
import HotstuffModel.Proofs.NodeInv6
/-
The "if" direction of the 2-chain commit rule (C05 is the "only if"): whenever a node processes a
proposal whose parent and grandparent it has stored and which are of consecutive rounds, it commits
the grandparent (if it had not already).  Together with `vote_enabled` this is the good-case progress
step of C06: three consecutive certified proposals commit the first.
-/
namespace HS
open Node

/-- The ancestor walk of `commit` always terminates normally on a store that is closed under
parents: no `expect`, no read error. -/
theorem commitWalk_done (c : Committee) (s : Node) (h : Inv4 s) :
    ∀ (fuel : Nat) (cur : Block) (acc : List Block),
      (cur = Block.genesis ∨ ∃ d, (d, cur) ∈ s.store) → ∃ anc, commitWalk c s fuel cur acc = .done anc := by
  intro fuel
  induction fuel with
  | zero => intro cur acc _; exact ⟨acc, by simp [commitWalk]⟩
  | succ n ih =>
    intro cur acc hcur
    unfold commitWalk
    split
    · have hcl : cur.qc.isGenesis = true ∨ (s.store.lookup cur.parent).isSome = true := by
        rcases hcur with rfl | ⟨d, hd⟩
        · left; exact genesis_isGenesis
        · exact h.closed d cur hd
      obtain ⟨p, hp⟩ := getParent_of_closed c s cur hcl
      rw [hp]
      simp only
      split
      · exact ⟨acc, rfl⟩
      · apply ih
        have hf : (getParent c s cur).2 = .found p := by rw [hp]
        rcases (getParent_found_spec c s cur p hf).2 with ⟨_, rfl⟩ | hl
        · left; rfl
        · right; exact ⟨_, mem_of_lookup hl⟩
    · exact ⟨acc, rfl⟩

/-- `commit(b)` on a genesis-or-stored block always returns `Ok` and leaves the watermark at or
above `b.round`. -/
theorem commit_reaches (c : Committee) (s : Node) (h : Inv4 s) (b : Block)
    (hb : b = Block.genesis ∨ ∃ d, (d, b) ∈ s.store) :
    (commit c s b).2 = true ∧ b.round ≤ (commit c s b).1.lastCommitted := by
  unfold commit
  split
  · rename_i hle
    exact ⟨rfl, hle⟩
  · obtain ⟨anc, hanc⟩ := commitWalk_done c s h (digestDepth b.digest + 1) b [] hb
    rw [hanc]
    simp only
    refine ⟨trivial, ?_⟩
    rw [foldl_commit_lc]
    exact Nat.le_refl _

/-- Processing a block on top of a consecutive-round 2-chain commits the head of the chain. -/
theorem processBlockTail_commits (c : Committee) (s : Node) (b0 b1 b : Block) (h4 : Inv4 s)
    (hpar : b.qc.isGenesis = true ∨ (s.store.lookup b.parent).isSome = true)
    (hb0 : b0 = Block.genesis ∨ ∃ d, (d, b0) ∈ s.store)
    (h2 : b0.round + 1 = b1.round) :
    b0.round ≤ (processBlockTail c s b0 b1 b).lastCommitted := by
  unfold processBlockTail
  have ht : Gen.twoChainRule b0.round b1.round = true := by simp [Gen.twoChainRule, h2]
  simp only [ht, if_true]
  have h4bc : Inv4 (beforeCommit s b0 b1 b) :=
    inv4_emit _ _ (inv4_mempoolCleanup _ _ (inv4_afterStore s b0 b1 b h4 hpar))
  have hb0' : b0 = Block.genesis ∨ ∃ d, (d, b0) ∈ (beforeCommit s b0 b1 b).store := by
    rcases hb0 with rfl | ⟨d, hd⟩
    · left; rfl
    · right; exact ⟨d, by simp [beforeCommit, mempoolCleanup, afterStore_store]; right; exact hd⟩
  have := (commit_reaches c _ h4bc b0 hb0').2
  exact Nat.le_trans this (ext_voteStage c _ _ b).lc

/-- `process_block(b)` when the parent `b1` and grandparent `b0` are stored (or genesis) and of
consecutive rounds: afterwards `last_committed_round ≥ b0.round`. -/
theorem processBlock_commits (c : Committee) (s : Node) (b b1 b0 : Block) (h4 : Inv4 s)
    (hp1 : (getParent c s b).2 = .found b1) (hp0 : (getParent c s b1).2 = .found b0)
    (h2 : b0.round + 1 = b1.round) :
    b0.round ≤ (processBlock c s b).lastCommitted := by
  have e1 := (getParent_found_spec c s b b1 hp1)
  have e0 := (getParent_found_spec c s b1 b0 hp0)
  unfold processBlock
  rw [hp1]
  simp only
  rw [e1.1, hp0]
  simp only
  rw [e0.1]
  apply processBlockTail_commits c s b0 b1 b h4
  · rcases e1.2 with ⟨hg, _⟩ | hl
    · left; exact hg
    · right; rw [hl]; rfl
  · rcases e0.2 with ⟨_, rfl⟩ | hl
    · left; rfl
    · right; exact ⟨_, mem_of_lookup hl⟩
  · exact h2

end HS

namespace HS
open Node

theorem advanceRound_store (s : Node) (r : Nat) (ev : Evidence) :
    (s.advanceRound r ev).store = s.store ∧ (s.advanceRound r ev).avail = s.avail := by
  unfold advanceRound; split <;> exact ⟨rfl, rfl⟩

theorem processQC_store (s : Node) (qc : QC) :
    (s.processQC qc).store = s.store ∧ (s.processQC qc).avail = s.avail := by
  unfold processQC updateHighQC
  have := advanceRound_store s qc.round (.qc qc)
  split <;> exact this

theorem advanceTC_store (s : Node) (tc : Option TC) :
    (s.advanceTC tc).store = s.store ∧ (s.advanceTC tc).avail = s.avail := by
  unfold advanceTC; split
  · exact advanceRound_store _ _ _
  · exact ⟨rfl, rfl⟩

theorem getParent_congr (c : Committee) (s s' : Node) (b : Block)
    (hs : s'.store = s.store) (_ha : s'.avail = s.avail) (p : Block)
    (h : (getParent c s b).2 = .found p) : (getParent c s' b).2 = .found p := by
  rcases (getParent_found_spec c s b p h).2 with ⟨hg, rfl⟩ | hl
  · unfold getParent; simp [hg]
  · by_cases hg : b.qc.isGenesis = true
    · -- then the real parent is genesis and `p` is what `getParent` returned for `s`
      have : (getParent c s b).2 = .found Block.genesis := by unfold getParent; simp [hg]
      rw [this] at h
      unfold getParent; simp only [hg, if_true]; exact h
    · unfold getParent readBlock
      simp only [hg, Bool.false_eq_true, if_false, hs, hl]

/-- THE GOOD CASE OF THE COMMIT RULE.  A node in any state with a parent-closed store (every
reachable state: `reachable_inv4`) that receives a proposal `b` from the round's leader, passing
`verify`, whose batches it holds, whose parent `b1` and grandparent `b0` it has stored, with
`b0.round + 1 = b1.round`, has `last_committed_round ≥ b0.round` afterwards. -/
theorem handleProposal_commits (c : Committee) (s : Node) (b b1 b0 : Block) (h4 : Inv4 s)
    (hl : b.author = c.leader b.round) (hv : b.verify c = .ok ())
    (hpay : ∀ d ∈ b.payload, d ∈ s.avail)
    (hp1 : (getParent c s b).2 = .found b1) (hp0 : (getParent c s b1).2 = .found b0)
    (h2 : b0.round + 1 = b1.round) :
    b0.round ≤ (s.handleProposal c b).lastCommitted := by
  unfold handleProposal
  have hne : (b.author != c.leader b.round) = false := by simp [hl]
  simp only [hne, Bool.false_eq_true, if_false, hv]
  have hs := processQC_store s b.qc
  have ht := advanceTC_store (s.processQC b.qc) b.tc
  have hstore : ((s.processQC b.qc).advanceTC b.tc).store = s.store := ht.1.trans hs.1
  have havail : ((s.processQC b.qc).advanceTC b.tc).avail = s.avail := ht.2.trans hs.2
  have h41 : Inv4 ((s.processQC b.qc).advanceTC b.tc) := inv4_advanceTC _ _ (inv4_processQC s b.qc h4)
  unfold proposalTail payloadVerify
  have hmiss : (b.payload.filter (fun d => !((s.processQC b.qc).advanceTC b.tc).avail.contains d)) = [] := by
    rw [havail]
    apply List.filter_eq_nil_iff.mpr
    intro d hd
    simp [hpay d hd]
  simp only [hmiss, List.isEmpty_nil, if_true]
  exact processBlock_commits c _ b b1 b0 h41
    (getParent_congr c s _ b hstore havail b1 hp1) (getParent_congr c s _ b1 hstore havail b0 hp0) h2

end HS

namespace HS
open Node

/-! ### the vote of the good case -/

theorem voteStage_votes (c : Committee) (s : Node) (b : Block)
    (hp : s.panic = none) (hr : b.round = s.round) (hlv : s.lastVoted < b.round)
    (h2 : safetyRule2 b = some true) :
    Out.voted b ∈ (voteStage c s true b).hist := by
  unfold voteStage
  simp only [hp, Bool.not_true, Option.isSome_none, Bool.or_self, Bool.false_eq_true, if_false]
  have hne : (b.round != s.round) = false := by simp [hr]
  simp only [hne, Bool.false_eq_true, if_false]
  have hmv : s.makeVote b = (({ s with lastVoted := max s.lastVoted b.round }).emit (.voted b),
      some { hash := b.digest, round := b.round, author := s.name, sig := ⟨s.name, .vote b.digest b.round⟩ }) := by
    unfold makeVote
    simp only [h2]
    have : (decide (b.round > s.lastVoted) && true) = true := by simp; omega
    simp only [this, if_true]
  rw [hmv]
  simp only
  apply ext_hist_mem (ext_sendVote c _ _)
  simp


/-- Round, vote watermark and panic flag are untouched (only store / commit bookkeeping moved). -/
structure RFrame (s s' : Node) : Prop where
  round : s'.round = s.round
  lv : s'.lastVoted = s.lastVoted
  panic : s'.panic = s.panic

theorem RFrame.trans {a b c : Node} (h1 : RFrame a b) (h2 : RFrame b c) : RFrame a c :=
  ⟨h2.round.trans h1.round, h2.lv.trans h1.lv, h2.panic.trans h1.panic⟩

theorem rframe_foldCommit (l : List Block) (s : Node) :
    RFrame s (l.foldl (fun s x => s.emit (.commit x)) s) := by
  induction l generalizing s with
  | nil => exact ⟨rfl, rfl, rfl⟩
  | cons x l ih => exact RFrame.trans (b := s.emit (.commit x)) ⟨rfl, rfl, rfl⟩ (ih _)

theorem rframe_commit_ok (c : Committee) (s : Node) (b : Block) (hok : (commit c s b).2 = true) :
    RFrame s (commit c s b).1 := by
  by_cases h : Gen.alreadyCommitted b.round s.lastCommitted
  · simp only [commit, h, if_true]; exact ⟨rfl, rfl, rfl⟩
  · simp only [commit, h, if_false] at hok ⊢
    split
    · rename_i hw; rw [hw] at hok; simp at hok
    · exact ⟨rfl, rfl, rfl⟩
    · exact RFrame.trans (b := { s with lastCommitted := b.round }) ⟨rfl, rfl, rfl⟩ (rframe_foldCommit _ _)

theorem rframe_beforeCommit (s : Node) (b0 b1 b : Block) : RFrame s (beforeCommit s b0 b1 b) :=
  ⟨rfl, rfl, rfl⟩

theorem rframe_afterStore (s : Node) (b0 b1 b : Block) : RFrame s (afterStore s b0 b1 b) := ⟨rfl, rfl, rfl⟩

/-- With both ancestors at hand, a block of the node's round that the node has not voted past and
that satisfies safety rule 2 is voted for. -/
theorem processBlockTail_votes (c : Committee) (s : Node) (b0 b1 b : Block) (h4 : Inv4 s)
    (hpar : b.qc.isGenesis = true ∨ (s.store.lookup b.parent).isSome = true)
    (hb0 : b0 = Block.genesis ∨ ∃ d, (d, b0) ∈ s.store)
    (hr : b.round = s.round) (hlv : s.lastVoted < b.round) (h2 : safetyRule2 b = some true) :
    Out.voted b ∈ (processBlockTail c s b0 b1 b).hist := by
  unfold processBlockTail
  split
  · have h4bc : Inv4 (beforeCommit s b0 b1 b) :=
      inv4_emit _ _ (inv4_mempoolCleanup _ _ (inv4_afterStore s b0 b1 b h4 hpar))
    have hb0' : b0 = Block.genesis ∨ ∃ d, (d, b0) ∈ (beforeCommit s b0 b1 b).store := by
      rcases hb0 with rfl | ⟨d, hd⟩
      · left; rfl
      · right; exact ⟨d, by simp [beforeCommit, mempoolCleanup, afterStore_store]; right; exact hd⟩
    have hok := (commit_reaches c _ h4bc b0 hb0').1
    have fr := RFrame.trans (rframe_beforeCommit s b0 b1 b) (rframe_commit_ok c _ b0 hok)
    rw [hok]
    apply voteStage_votes c _ b
    · rw [fr.panic]; exact h4.noPanic
    · rw [fr.round]; exact hr
    · rw [fr.lv]; exact hlv
    · exact h2
  · have fr := rframe_afterStore s b0 b1 b
    apply voteStage_votes c _ b
    · rw [fr.panic]; exact h4.noPanic
    · rw [fr.round]; exact hr
    · rw [fr.lv]; exact hlv
    · exact h2

end HS

namespace HS
open Node

theorem processBlock_votes (c : Committee) (s : Node) (b b1 b0 : Block) (h4 : Inv4 s)
    (hp1 : (getParent c s b).2 = .found b1) (hp0 : (getParent c s b1).2 = .found b0)
    (hr : b.round = s.round) (hlv : s.lastVoted < b.round) (h2 : safetyRule2 b = some true) :
    Out.voted b ∈ (processBlock c s b).hist := by
  have e1 := (getParent_found_spec c s b b1 hp1)
  have e0 := (getParent_found_spec c s b1 b0 hp0)
  unfold processBlock
  rw [hp1]
  simp only
  rw [e1.1, hp0]
  simp only
  rw [e0.1]
  apply processBlockTail_votes c s b0 b1 b h4
  · rcases e1.2 with ⟨hg, _⟩ | hl
    · left; exact hg
    · right; rw [hl]; rfl
  · rcases e0.2 with ⟨_, rfl⟩ | hl
    · left; rfl
    · right; exact ⟨_, mem_of_lookup hl⟩
  · exact hr
  · exact hlv
  · exact h2

theorem processQC_round_lv (s : Node) (qc : QC) :
    (s.processQC qc).round = max s.round (qc.round + 1) ∧ (s.processQC qc).lastVoted = s.lastVoted := by
  unfold processQC updateHighQC advanceRound
  split <;> split <;> simp [emit] <;> omega

/-- THE GOOD CASE OF VOTING.  A node that has not moved past round `b.round`, has not voted or timed
out in it, and receives from the round's leader a verified block `b` that directly extends its QC
(`b.qc.round + 1 = b.round`, no TC), whose batches it holds and whose parent and grandparent it has
stored, signs a vote for `b`. -/
theorem handleProposal_votes (c : Committee) (s : Node) (b b1 b0 : Block) (h4 : Inv4 s)
    (hl : b.author = c.leader b.round) (hv : b.verify c = .ok ())
    (hpay : ∀ d ∈ b.payload, d ∈ s.avail)
    (hp1 : (getParent c s b).2 = .found b1) (hp0 : (getParent c s b1).2 = .found b0)
    (htc : b.tc = none) (hdir : b.qc.round + 1 = b.round)
    (hround : s.round ≤ b.round) (hlv : s.lastVoted < b.round) :
    Out.voted b ∈ (s.handleProposal c b).hist := by
  unfold handleProposal
  have hne : (b.author != c.leader b.round) = false := by simp [hl]
  simp only [hne, Bool.false_eq_true, if_false, hv]
  have hs := processQC_store s b.qc
  have hrl := processQC_round_lv s b.qc
  have hadv : (s.processQC b.qc).advanceTC b.tc = s.processQC b.qc := by rw [htc]; rfl
  rw [hadv]
  have h41 : Inv4 (s.processQC b.qc) := inv4_processQC s b.qc h4
  unfold proposalTail payloadVerify
  have hmiss : (b.payload.filter (fun d => !(s.processQC b.qc).avail.contains d)) = [] := by
    rw [hs.2]
    apply List.filter_eq_nil_iff.mpr
    intro d hd
    simp [hpay d hd]
  simp only [hmiss, List.isEmpty_nil, if_true]
  apply processBlock_votes c _ b b1 b0 h41
    (getParent_congr c s _ b hs.1 hs.2 b1 hp1) (getParent_congr c s _ b1 hs.1 hs.2 b0 hp0)
  · rw [hrl.1]; omega
  · rw [hrl.2]; exact hlv
  · unfold safetyRule2
    simp [htc, Gen.viaQC, hdir]

end HS
