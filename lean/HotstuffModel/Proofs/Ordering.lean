import HotstuffModel.Proofs.NodeInv2
/-
Reading the ordering predicates: what they say about two positions of the history.
The history is newest first, so in `h1 ++ x :: h2` everything in `h2` happened BEFORE `x`.
-/
namespace HS

theorem votesOrd_split {h1 h2 : List Out} {b : Block} (h : votesOrd (h1 ++ .voted b :: h2)) :
    (∀ b', Out.voted b' ∈ h2 → b'.round < b.round) ∧ (∀ t, Out.timeout t ∈ h2 → t.round < b.round) := by
  induction h1 with
  | nil => simp [votesOrd] at h; exact ⟨h.1, h.2.1⟩
  | cons o h1 ih =>
    cases o <;> simp [votesOrd] at h <;> first | exact ih h | exact ih h.2.2

theorem makesOrd_split {h1 h2 : List Out} {r : Nat} {q : QC} {t : Option TC}
    (h : makesOrd (h1 ++ .make r q t :: h2)) : ∀ r' q' t', Out.make r' q' t' ∈ h2 → r' < r := by
  induction h1 with
  | nil => simp [makesOrd] at h; exact h.1
  | cons o h1 ih =>
    cases o <;> simp [makesOrd] at h <;> first | exact ih h | exact ih h.2

theorem propsOrd_split {h1 h2 : List Out} {b : Block} (h : propsOrd (h1 ++ .propose b :: h2)) :
    ∀ b', Out.propose b' ∈ h2 → b'.round < b.round := by
  induction h1 with
  | nil => simp [propsOrd] at h; exact h.1
  | cons o h1 ih =>
    cases o <;> simp [propsOrd] at h <;> first | exact ih h | exact ih h.2

theorem enteredOrd_split {h1 h2 : List Out} {r : Nat} {e : Evidence}
    (h : enteredOrd (h1 ++ .entered r e :: h2)) : ∀ r' e', Out.entered r' e' ∈ h2 → r' < r := by
  induction h1 with
  | nil => simp [enteredOrd] at h; exact h.1
  | cons o h1 ih =>
    cases o <;> simp [enteredOrd] at h <;> first | exact ih h | exact ih h.2

/-- Every state reachable from `init` by any event list satisfies both invariants. -/
theorem reachable_inv (c : Committee) (name : Nat) (es : List Event) :
    Inv1 (Node.run c (Node.init c name) es) ∧ Inv2 (Node.run c (Node.init c name) es) :=
  inv12_run c _ es (inv1_init c name) (inv2_init c name)

end HS
