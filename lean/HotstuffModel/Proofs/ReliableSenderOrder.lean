import HotstuffModel.Proofs.ReliableSender
/-!
# Reliable sender: first transmissions happen in hand-over order (trace form)

Helper lemmas and the invariant `OrderInv` behind `HS.C14.first_transmissions_in_handover_order`
(Properties/C14.lean).

* `written s.trace` lists the message ids of all frames written so far, OLDEST FIRST (`step` appends
  what it emits at the END of `trace`).
* `FirstBefore W a b` : in every split `W = p ++ b :: q` with `b ∉ p` (the first occurrence of `b`),
  `a ∈ p`.
* `Dead s a` : `a` is cancelled, was never written and is not being written; this is stable under
  every step, so `a` is never written later either.
* `OrderInv s` : for `a` handed over before `b`: `FirstBefore (written s.trace) a b ∨ Dead s a`.
-/
namespace HS.RS

/-! ### Step facts (moved here from Properties/C14.lean, which re-exports them) -/

/-- Every frame is the completion of the write in progress, on the current connection. -/
theorem frame_writing (s : State) (e : Event) (c id : Nat)
    (hf : Out.frame c id ∈ outs s e) : s.writing = some id ∧ c = s.connNo ∧ s.mode = .connected := by
  cases e <;> simp only [outs, stepCore] at hf
  case send => split at hf <;> simp at hf
  case cancel => split at hf <;> simp at hf
  case connectOk => split at hf <;> simp at hf
  case connectFail => split at hf <;> simp at hf
  case timerFired => split at hf <;> simp at hf
  case recvMsg => split at hf <;> (try split at hf) <;> (try split at hf) <;> simp at hf
  case writeBegin => split at hf <;> (try split at hf) <;> simp at hf
  case writeOk =>
    split at hf
    · rename_i m hm hw; simp at hf; exact ⟨by rw [hw, hf.2], hf.1, hm⟩
    · simp at hf
  case writeFail => split at hf <;> simp at hf
  case ackRead =>
    split at hf
    · split at hf
      · simp at hf
      · split at hf <;> simp at hf
    · simp at hf
  case readClosed => split at hf <;> simp at hf

/-- `is_closed` is checked when a write starts: a write never starts for a message whose handle is
already dropped. -/
theorem writing_starts_live (s : State) (e : Event) (m : Nat)
    (h1 : (step s e).writing = some m) (h0 : s.writing ≠ some m) : m ∉ s.closed := by
  cases e <;> simp only [step, stepCore] at h1
  case send => split at h1 <;> exact (h0 h1).elim
  case cancel => split at h1 <;> exact (h0 h1).elim
  case connectOk => split at h1 <;> exact (h0 h1).elim
  case connectFail => split at h1 <;> exact (h0 h1).elim
  case timerFired => split at h1 <;> exact (h0 h1).elim
  case recvMsg =>
    split at h1
    · exact (h0 h1).elim
    · split at h1
      · exact (h0 h1).elim
      · exact (h0 h1).elim
      · split at h1 <;> exact (h0 h1).elim
  case writeBegin =>
    split at h1
    · split at h1
      · exact (h0 h1).elim
      · rename_i m' rest hd
        simp at h1; subst h1
        have := head_dropWhile_not s.isClosed s.buffer m' rest hd
        simpa [State.isClosed] using this
    · exact (h0 h1).elim
  case writeOk => split at h1 <;> first | exact (h0 h1).elim | simp at h1
  case writeFail => split at h1 <;> first | exact (h0 h1).elim | simp [teardown] at h1
  case ackRead =>
    split at h1
    · split at h1 <;> simp_all [teardown]
    · exact (h0 h1).elim
  case readClosed => split at h1 <;> first | exact (h0 h1).elim | simp_all [teardown]

/-- `closed` only grows. -/
theorem closed_step_mono (s : State) (e : Event) (m : Nat) (h : m ∈ s.closed) : m ∈ (step s e).closed := by
  cases shape_step s e with
  | quiet hh hc => rw [hc]; exact h
  | ack m0 rest hh hc => rw [hc]; exact h
  | send id hid hh hc => rw [hc]; exact h
  | cancel id hh hc => rw [hc]; exact List.mem_cons_of_mem _ h

/-- `handed` grows only at the end, by a fresh id. -/
theorem handed_step (s : State) (e : Event) :
    (step s e).handed = s.handed ∨ ∃ id, id ∉ s.handed ∧ (step s e).handed = s.handed ++ [id] := by
  cases shape_step s e with
  | quiet hh => exact Or.inl hh
  | ack m0 rest hh => exact Or.inl hh
  | send id hid hh => exact Or.inr ⟨id, hid, hh⟩
  | cancel id hh => exact Or.inl hh

/-- A step writes at most one frame, and it carries the message whose write is in progress. -/
theorem written_outs (s : State) (e : Event) :
    written (outs s e) = [] ∨ ∃ m, s.writing = some m ∧ written (outs s e) = [m] := by
  cases e <;> simp only [outs, stepCore]
  case send => split <;> simp
  case cancel => split <;> simp
  case connectOk => split <;> simp
  case connectFail => split <;> simp
  case timerFired => split <;> simp
  case recvMsg => split <;> (try split) <;> (try split) <;> simp
  case writeBegin => split <;> (try split) <;> simp
  case writeOk =>
    split
    · rename_i m hm hw; exact Or.inr ⟨m, hw, by simp⟩
    · simp
  case writeFail => split <;> simp
  case ackRead =>
    split
    · split
      · simp
      · split <;> simp
    · simp
  case readClosed => split <;> simp

theorem written_step (s : State) (e : Event) :
    written (step s e).trace = written s.trace ++ written (outs s e) := by
  rw [step_trace, written_append]

/-- Induction over the reachable states. -/
theorem reachable_induct {P : State → Prop} (h0 : P init)
    (hs : ∀ s e, Reachable s → P s → P (step s e)) {s : State} (h : Reachable s) : P s := by
  obtain ⟨es, rfl⟩ := h
  suffices ∀ (es : List Event) (s : State), Reachable s → P s → P (run s es) from
    this es init ⟨[], rfl⟩ h0
  intro es
  induction es with
  | nil => intro s _ h; exact h
  | cons e es ih => intro s hr h; exact ih (step s e) (hr.step e) (hs s e hr h)

/-- The message whose write is in progress was handed over. -/
theorem writing_handed (s : State) (h : Reachable s) (m : Nat) (hw : s.writing = some m) : m ∈ s.handed :=
  h.invH.sub.subset (by simp [State.held, hw])

/-- Only handed-over messages are ever written. -/
theorem written_handed {s : State} (h : Reachable s) : ∀ m ∈ written s.trace, m ∈ s.handed := by
  refine reachable_induct (P := fun s => ∀ m ∈ written s.trace, m ∈ s.handed) ?_ ?_ h
  · simp [init]
  · intro s e hr ih m hm
    rw [written_step, List.mem_append] at hm
    have hmono : ∀ x ∈ s.handed, x ∈ (step s e).handed := by
      intro x hx
      rcases handed_step s e with h | ⟨id, _, h⟩ <;> rw [h]
      · exact hx
      · exact List.mem_append_left _ hx
    rcases hm with hm | hm
    · exact hmono m (ih m hm)
    · rcases written_outs s e with h0 | ⟨m', hw, h1⟩
      · rw [h0] at hm; cases hm
      · rw [h1, List.mem_singleton] at hm; subst hm
        exact hmono m (writing_handed s hr m hw)

/-! ### The step form, stated on the write in progress -/

/-- While the write of `b` is in progress, every message handed over before `b` has already been
written or is cancelled. -/
theorem handed_before_writing (s : State) (h : Reachable s) (b : Nat) (hw : s.writing = some b)
    (pre post : List Nat) (hsplit : s.handed = pre ++ b :: post) (a : Nat) (ha : a ∈ pre) :
    a ∈ written s.trace ∨ a ∈ s.closed := by
  have H := h.invH
  have P := h.invP
  by_cases hcl : a ∈ s.closed
  · exact Or.inr hcl
  left
  by_cases hak : a ∈ acked s.trace
  · exact P.ackW a hak
  have hah : a ∈ s.handed := by rw [hsplit]; exact List.mem_append_left _ ha
  have haheld : a ∈ s.held := H.keep a hah hcl hak
  have hnd : s.handed.Nodup := H.nodupH
  have hheld : s.held = s.pending ++ b :: (s.buffer ++ s.chan) := by simp [State.held, hw]
  have hbheld : b ∈ s.held := by rw [hheld]; simp
  have hfil := sublist_eq_filter H.sub hnd
  rw [hsplit, List.filter_append, List.filter_cons] at hfil
  simp only [hbheld, decide_true, if_true] at hfil
  rw [hheld] at hfil
  have hndheld : (s.pending ++ b :: (s.buffer ++ s.chan)).Nodup := hheld ▸ hnd.sublist H.sub
  have hb1 : b ∉ s.pending := by
    intro hb
    have := (List.nodup_append.1 hndheld).2.2 b hb b (by simp)
    exact this rfl
  have hb2 : b ∉ pre.filter (fun x => decide (x ∈ s.pending ++ b :: (s.buffer ++ s.chan))) := by
    intro hb
    have hbpre := (List.mem_filter.1 hb).1
    rw [hsplit] at hnd
    exact (List.nodup_append.1 hnd).2.2 b hbpre b (by simp) rfl
  have := split_unique hfil hb1 hb2
  have hap : a ∈ s.pending := by
    rw [this]
    exact List.mem_filter.2 ⟨ha, by rw [← hheld]; simpa using haheld⟩
  exact P.pendW a hap

/-! ### `Dead`: cancelled, never written, not being written — for ever -/

def Dead (s : State) (a : Nat) : Prop :=
  a ∈ s.closed ∧ a ∉ written s.trace ∧ s.writing ≠ some a

theorem Dead.step {s : State} {a : Nat} (h : Dead s a) (e : Event) : Dead (step s e) a := by
  obtain ⟨hc, hw, hwr⟩ := h
  refine ⟨closed_step_mono s e a hc, ?_, ?_⟩
  · rw [written_step, List.mem_append, not_or]
    refine ⟨hw, ?_⟩
    rcases written_outs s e with h0 | ⟨m, hm, h1⟩
    · rw [h0]; simp
    · rw [h1, List.mem_singleton]
      rintro rfl
      exact hwr hm
  · intro h1
    exact writing_starts_live s e a h1 hwr hc

theorem Dead.run {s : State} {a : Nat} (h : Dead s a) (es : List Event) : Dead (run s es) a := by
  induction es generalizing s with
  | nil => exact h
  | cons e es ih => exact ih (h.step e)

/-! ### `FirstBefore` -/

/-- `a` occurs in `W` before the first occurrence of `b` (vacuous if `b ∉ W`). -/
def FirstBefore (W : List Nat) (a b : Nat) : Prop :=
  ∀ p q, W = p ++ b :: q → b ∉ p → a ∈ p

theorem FirstBefore.of_not_mem {W : List Nat} {a b : Nat} (h : b ∉ W) : FirstBefore W a b := by
  intro p q hW _
  exact (h (by rw [hW]; simp)).elim

theorem FirstBefore.append {W : List Nat} {a b : Nat} (h : FirstBefore W a b) (hb : b ∈ W)
    (X : List Nat) : FirstBefore (W ++ X) a b := by
  intro p q hW hp
  obtain ⟨p0, q0, h0, hp0⟩ := List.eq_append_cons_of_mem hb
  have : p0 ++ b :: (q0 ++ X) = p ++ b :: q := by rw [← hW, h0]; simp
  have hpp := split_unique this hp0 hp
  subst hpp
  exact h p0 q0 h0 hp0

theorem FirstBefore.snoc_new {W : List Nat} {a b : Nat} (hb : b ∉ W) (ha : a ∈ W) :
    FirstBefore (W ++ [b]) a b := by
  intro p q hW hp
  have : W ++ b :: [] = p ++ b :: q := hW
  have hpp := split_unique this hb hp
  subst hpp
  exact ha

/-- A split of `l ++ [x]` at an element other than `x` is a split of `l`. -/
theorem split_snoc {l pre post : List Nat} {x b : Nat} (h : l ++ [x] = pre ++ b :: post) (hne : b ≠ x) :
    ∃ post', l = pre ++ b :: post' := by
  induction pre generalizing l with
  | nil =>
    cases l with
    | nil => simp at h; exact (hne h.1.symm).elim
    | cons y l => simp at h; exact ⟨l, by simp [h.1]⟩
  | cons c pre ih =>
    cases l with
    | nil => simp at h
    | cons y l =>
      simp at h
      obtain ⟨rfl, h⟩ := h
      obtain ⟨post', rfl⟩ := ih h
      exact ⟨post', rfl⟩

/-! ### The order invariant -/

def OrderInv (s : State) : Prop :=
  ∀ (pre : List Nat) (b : Nat) (post : List Nat) (a : Nat), s.handed = pre ++ b :: post → a ∈ pre →
    FirstBefore (written s.trace) a b ∨ Dead s a

theorem orderInv_init : OrderInv init := by
  intro pre b post a h _
  simp [init] at h

theorem orderInv_step (s : State) (e : Event) (hr : Reachable s) (J : OrderInv s) :
    OrderInv (step s e) := by
  intro pre b post a hsplit ha
  by_cases hbW' : b ∈ written (step s e).trace
  case neg => exact Or.inl (FirstBefore.of_not_mem hbW')
  -- `b` was handed over before this step
  have hbh : b ∈ s.handed := by
    rw [written_step, List.mem_append] at hbW'
    rcases hbW' with hb | hb
    · exact written_handed hr b hb
    · rcases written_outs s e with h0 | ⟨m, hw, h1⟩
      · rw [h0] at hb; cases hb
      · rw [h1, List.mem_singleton] at hb; subst hb
        exact writing_handed s hr b hw
  -- so the split is a split of `s.handed`
  obtain ⟨post0, hs0⟩ : ∃ post0, s.handed = pre ++ b :: post0 := by
    rcases handed_step s e with h | ⟨id, hid, h⟩
    · exact ⟨post, by rw [← h, hsplit]⟩
    · rw [h] at hsplit
      exact split_snoc hsplit (by rintro rfl; exact hid hbh)
  have hab : a ≠ b := by
    rintro rfl
    have hnd := hr.invH.nodupH
    rw [hs0] at hnd
    exact (List.nodup_append.1 hnd).2.2 a ha a (by simp) rfl
  rcases J pre b post0 a hs0 ha with hFB | hD
  case inr => exact Or.inr (hD.step e)
  rw [written_step]
  rcases written_outs s e with h0 | ⟨m, hw, h1⟩
  · rw [h0, List.append_nil]; exact Or.inl hFB
  · rw [h1]
    by_cases hbW : b ∈ written s.trace
    · exact Or.inl (hFB.append hbW _)
    · -- first transmission of `b`
      have hbm : b = m := by
        rw [written_step, h1, List.mem_append, List.mem_singleton] at hbW'
        rcases hbW' with h | h
        · exact (hbW h).elim
        · exact h
      subst hbm
      by_cases haW : a ∈ written s.trace
      · exact Or.inl (FirstBefore.snoc_new hbW haW)
      · rcases handed_before_writing s hr b hw pre post0 hs0 a ha with h | hcl
        · exact (haW h).elim
        · refine Or.inr (Dead.step ⟨hcl, haW, ?_⟩ e)
          rw [hw]; intro h; exact hab (Option.some.inj h).symm

theorem Reachable.orderInv {s : State} (h : Reachable s) : OrderInv s :=
  reachable_induct orderInv_init orderInv_step h

/-- TRACE FORM.  `W = written s.trace` is the sequence of message ids of the frames written so far,
oldest first.  For the FIRST transmission of `b` (`W = pre' ++ b :: post'`, `b ∉ pre'`) and every `a`
handed over before `b`: `a` was first transmitted before `b`, or `a` is not transmitted at all in `W`
and is cancelled. -/
theorem first_transmissions_ordered (s : State) (h : Reachable s)
    (pre : List Nat) (b : Nat) (post : List Nat) (hsplit : s.handed = pre ++ b :: post)
    (a : Nat) (ha : a ∈ pre)
    (pre' post' : List Nat) (hW : written s.trace = pre' ++ b :: post') (hfirst : b ∉ pre') :
    a ∈ pre' ∨ (a ∉ written s.trace ∧ a ∈ s.closed) := by
  rcases h.orderInv pre b post a hsplit ha with hFB | hD
  · exact Or.inl (hFB pre' post' hW hfirst)
  · exact Or.inr ⟨hD.2.1, hD.1⟩

/-- A message that was skipped (a later-handed message was transmitted, it was not) is never
transmitted afterwards, whatever happens. -/
theorem skipped_never_written (s : State) (h : Reachable s)
    (pre : List Nat) (b : Nat) (post : List Nat) (hsplit : s.handed = pre ++ b :: post)
    (a : Nat) (ha : a ∈ pre) (hb : b ∈ written s.trace) (hna : a ∉ written s.trace)
    (es : List Event) : a ∉ written (run s es).trace := by
  rcases h.orderInv pre b post a hsplit ha with hFB | hD
  · obtain ⟨p, q, hW, hp⟩ := List.eq_append_cons_of_mem hb
    have := hFB p q hW hp
    exact (hna (by rw [hW]; exact List.mem_append_left _ this)).elim
  · exact (hD.run es).2.1

/-! ### Corollary: the first occurrences in `written` form a sublist of `handed` -/

/-- First occurrences: `W` with later duplicates erased (structural version of `List.eraseDups`,
see `firsts_eq_eraseDups`). -/
def firsts : List Nat → List Nat
  | [] => []
  | x :: xs => x :: (firsts xs).filter (fun y => y != x)

theorem mem_firsts {W : List Nat} {x : Nat} : x ∈ firsts W ↔ x ∈ W := by
  induction W with
  | nil => simp [firsts]
  | cons y ys ih =>
    simp only [firsts, List.mem_cons, List.mem_filter, ih, bne_iff_ne, ne_eq]
    by_cases h : x = y <;> simp [h]

theorem firsts_nodup (W : List Nat) : (firsts W).Nodup := by
  induction W with
  | nil => simp [firsts]
  | cons y ys ih =>
    simp only [firsts, List.nodup_cons, List.mem_filter, bne_self_eq_false, Bool.false_eq_true,
      and_false, not_false_eq_true, true_and]
    exact ih.sublist List.filter_sublist

theorem firsts_split {p q : List Nat} {b : Nat} (hb : b ∉ p) :
    ∃ z, firsts (p ++ b :: q) = firsts p ++ b :: z := by
  induction p with
  | nil => exact ⟨_, rfl⟩
  | cons c p ih =>
    have hbc : b ≠ c := fun h => hb (by simp [h])
    obtain ⟨z, hz⟩ := ih (fun h => hb (List.mem_cons_of_mem _ h))
    refine ⟨z.filter (fun y => y != c), ?_⟩
    simp [firsts, hz, List.filter_append, hbc]

theorem filter_eraseDups (n : Nat) : ∀ (l : List Nat) (p : Nat → Bool), l.length ≤ n →
    (l.filter p).eraseDups = l.eraseDups.filter p := by
  induction n with
  | zero =>
    intro l p hl
    have : l = [] := List.eq_nil_of_length_eq_zero (by omega)
    subst this; simp
  | succ n ih =>
    intro l p hl
    cases l with
    | nil => simp
    | cons x l =>
      have hlen : (l.filter (fun b => !b == x)).length ≤ n := by
        have := List.length_filter_le (fun b => !b == x) l
        simp at hl; omega
      by_cases hp : p x
      · simp only [List.filter_cons, hp, if_true, List.eraseDups_cons]
        congr 1
        rw [← ih _ p hlen, List.filter_filter, List.filter_filter]
        congr 1
        apply List.filter_congr
        intro y _
        exact Bool.and_comm _ _
      · simp only [List.filter_cons, hp, List.eraseDups_cons]
        simp only [Bool.false_eq_true, if_false]
        rw [← ih _ p hlen, List.filter_filter]
        congr 1
        apply List.filter_congr
        intro y _
        by_cases hy : y = x
        · subst hy; simp [hp]
        · simp [hy]

theorem firsts_eq_eraseDups (W : List Nat) : firsts W = W.eraseDups := by
  induction W with
  | nil => simp [firsts]
  | cons x xs ih =>
    rw [firsts, List.eraseDups_cons, ih, filter_eraseDups xs.length xs _ (Nat.le_refl _)]
    rfl

/-- A duplicate-free list whose elements all lie in the duplicate-free list `H`, in an order
compatible with that of `H`, is a sublist of `H`. -/
theorem sublist_of_order {H : List Nat} : ∀ {F : List Nat}, F.Nodup → H.Nodup → (∀ x ∈ F, x ∈ H) →
    (∀ pre b post a, H = pre ++ b :: post → a ∈ pre → a ∈ F → b ∈ F → ∃ p q, F = p ++ b :: q ∧ a ∈ p) →
    F.Sublist H := by
  induction H with
  | nil =>
    intro F _ _ hsub _
    cases F with
    | nil => exact List.Sublist.slnil
    | cons f F => exact absurd (hsub f (by simp)) (by simp)
  | cons h H ih =>
    intro F hF hH hsub hord
    have hH' := List.nodup_cons.1 hH
    by_cases hh : h ∈ F
    · cases F with
      | nil => cases hh
      | cons f F =>
        have hF' := List.nodup_cons.1 hF
        have hfh : f = h := by
          apply Classical.byContradiction
          intro hne
          have hfH : f ∈ H := by
            rcases List.mem_cons.1 (hsub f (by simp)) with h1 | h1
            · exact (hne h1).elim
            · exact h1
          obtain ⟨p1, q1, hp1⟩ := List.append_of_mem hfH
          obtain ⟨p, q, hpq, hhp⟩ := hord (h :: p1) f q1 h (by rw [hp1]; rfl) (by simp) hh (by simp)
          cases p with
          | nil => cases hhp
          | cons c p =>
            simp only [List.cons_append, List.cons.injEq] at hpq
            exact hF'.1 (by rw [hpq.2]; simp)
        subst hfh
        refine List.Sublist.cons_cons f (ih hF'.2 hH'.2 ?_ ?_)
        · intro x hx
          rcases List.mem_cons.1 (hsub x (List.mem_cons_of_mem _ hx)) with h1 | h1
          · subst h1; exact (hF'.1 hx).elim
          · exact h1
        · intro pre b post a hsplit ha haF hbF
          obtain ⟨p, q, hpq, hap⟩ := hord (f :: pre) b post a (by rw [hsplit]; rfl)
            (List.mem_cons_of_mem _ ha) (List.mem_cons_of_mem _ haF) (List.mem_cons_of_mem _ hbF)
          cases p with
          | nil => cases hap
          | cons c p =>
            simp only [List.cons_append, List.cons.injEq] at hpq
            obtain ⟨rfl, hpq⟩ := hpq
            refine ⟨p, q, hpq, ?_⟩
            rcases List.mem_cons.1 hap with h1 | h1
            · subst h1; exact (hF'.1 haF).elim
            · exact h1
    · refine List.Sublist.cons h (ih hF hH'.2 ?_ ?_)
      · intro x hx
        rcases List.mem_cons.1 (hsub x hx) with h1 | h1
        · subst h1; exact (hh hx).elim
        · exact h1
      · intro pre b post a hsplit ha haF hbF
        exact hord (h :: pre) b post a (by rw [hsplit]; rfl) (List.mem_cons_of_mem _ ha) haF hbF

/-- The messages in order of their FIRST transmission form a sublist of the hand-over order. -/
theorem firsts_written_sublist_handed (s : State) (h : Reachable s) :
    (firsts (written s.trace)).Sublist s.handed := by
  refine sublist_of_order (firsts_nodup _) h.invH.nodupH
    (fun x hx => written_handed h x (mem_firsts.1 hx)) ?_
  intro pre b post a hsplit ha haF hbF
  obtain ⟨p, q, hW, hp⟩ := List.eq_append_cons_of_mem (mem_firsts.1 hbF)
  have hap : a ∈ p := by
    rcases first_transmissions_ordered s h pre b post hsplit a ha p q hW hp with h1 | h1
    · exact h1
    · exact (h1.1 (mem_firsts.1 haF)).elim
  obtain ⟨z, hz⟩ := firsts_split (q := q) hp
  exact ⟨firsts p, z, by rw [hW, hz], mem_firsts.2 hap⟩

theorem eraseDups_written_sublist_handed (s : State) (h : Reachable s) :
    (written s.trace).eraseDups.Sublist s.handed := by
  rw [← firsts_eq_eraseDups]; exact firsts_written_sublist_handed s h

end HS.RS
