import HotstuffModel.Model.Node
/-
Layer 1 invariant of the node model: the pacemaker / voting arithmetic (no cryptography).
Holds for ARBITRARY inputs: no assumption on what the network delivers.
-/
namespace HS
open Node

@[simp] theorem emit_round (s : Node) (o : Out) : (s.emit o).round = s.round := rfl
@[simp] theorem emit_lastVoted (s : Node) (o : Out) : (s.emit o).lastVoted = s.lastVoted := rfl
@[simp] theorem emit_lastCommitted (s : Node) (o : Out) : (s.emit o).lastCommitted = s.lastCommitted := rfl
@[simp] theorem emit_highQC (s : Node) (o : Out) : (s.emit o).highQC = s.highQC := rfl
@[simp] theorem emit_agg (s : Node) (o : Out) : (s.emit o).agg = s.agg := rfl
@[simp] theorem emit_store (s : Node) (o : Out) : (s.emit o).store = s.store := rfl
@[simp] theorem emit_avail (s : Node) (o : Out) : (s.emit o).avail = s.avail := rfl
@[simp] theorem emit_loopQ (s : Node) (o : Out) : (s.emit o).loopQ = s.loopQ := rfl
@[simp] theorem emit_propQ (s : Node) (o : Out) : (s.emit o).propQ = s.propQ := rfl
@[simp] theorem emit_buffer (s : Node) (o : Out) : (s.emit o).buffer = s.buffer := rfl
@[simp] theorem emit_syncPending (s : Node) (o : Out) : (s.emit o).syncPending = s.syncPending := rfl
@[simp] theorem emit_syncRequests (s : Node) (o : Out) : (s.emit o).syncRequests = s.syncRequests := rfl
@[simp] theorem emit_payPending (s : Node) (o : Out) : (s.emit o).payPending = s.payPending := rfl
@[simp] theorem emit_panic (s : Node) (o : Out) : (s.emit o).panic = s.panic := rfl
@[simp] theorem emit_name (s : Node) (o : Out) : (s.emit o).name = s.name := rfl
@[simp] theorem emit_hist (s : Node) (o : Out) : (s.emit o).hist = o :: s.hist := rfl

@[simp] theorem ownBlock_qc (n r : Nat) (q : QC) (t : Option TC) (p : List Nat) : (ownBlock n r q t p).qc = q := rfl
@[simp] theorem ownBlock_tc (n r : Nat) (q : QC) (t : Option TC) (p : List Nat) : (ownBlock n r q t p).tc = t := rfl
@[simp] theorem ownBlock_round (n r : Nat) (q : QC) (t : Option TC) (p : List Nat) : (ownBlock n r q t p).round = r := rfl
@[simp] theorem ownBlock_author (n r : Nat) (q : QC) (t : Option TC) (p : List Nat) : (ownBlock n r q t p).author = n := rfl
@[simp] theorem ownBlock_payload (n r : Nat) (q : QC) (t : Option TC) (p : List Nat) : (ownBlock n r q t p).payload = p := rfl

/-- Safety rule 2 of `make_vote`, as a proposition. -/
def SafeExt (b : Block) : Prop :=
  b.qc.round + 1 = b.round ∨
    ∃ tc, b.tc = some tc ∧ tc.round + 1 = b.round ∧ ∀ x ∈ tc.highQcRounds, x ≤ b.qc.round

/-- Every block that sits in a queue, is parked, or is stored. -/
def Node.pendingBlocks (s : Node) : List Block :=
  s.loopQ ++ s.syncPending ++ s.payPending.map Prod.fst ++ s.store.map Prod.snd

structure Inv1 (s : Node) : Prop where
  hq_lt : s.highQC.round < s.round
  lv_le : s.lastVoted ≤ s.round
  voted : ∀ b, Out.voted b ∈ s.hist →
    b.round ≤ s.lastVoted ∧ b.qc.round < b.round ∧ SafeExt b ∧ b.qc.round ≤ s.highQC.round
  touts : ∀ t, Out.timeout t ∈ s.hist →
    t.round ≤ s.lastVoted ∧ t.highQC.round ≤ s.highQC.round ∧ t.highQC.round < t.round
  blocks : ∀ b, b ∈ s.pendingBlocks → b.qc.round < s.round ∧ b.qc.round ≤ s.highQC.round
  makes : ∀ r qc tc, PMsg.make r qc tc ∈ s.propQ →
    qc.round < r ∧ r ≤ s.round ∧ qc.round ≤ s.highQC.round
  makesHist : ∀ r qc tc, Out.make r qc tc ∈ s.hist → r ≤ s.round
  proposed : ∀ b, Out.propose b ∈ s.hist → b.qc.round < b.round ∧ b.qc.round ≤ s.highQC.round
  replied : ∀ to b, Out.helperReply to b ∈ s.hist → b.qc.round ≤ s.highQC.round

theorem maxRounds_ge {l : List Nat} {m : Nat} (h : maxRounds l = some m) : ∀ x ∈ l, x ≤ m := by
  cases l with
  | nil => simp [maxRounds] at h
  | cons a l =>
    simp only [maxRounds, Option.some.injEq] at h
    subst h
    have key : ∀ (l : List Nat) (a : Nat), a ≤ l.foldl max a ∧ ∀ x ∈ l, x ≤ l.foldl max a := by
      intro l
      induction l with
      | nil => intro a; simp
      | cons b l ih =>
        intro a
        have := ih (max a b)
        simp only [List.foldl_cons, List.mem_cons]
        refine ⟨by omega, ?_⟩
        intro x hx
        rcases hx with rfl | hx
        · omega
        · exact this.2 x hx
    intro x hx
    rcases List.mem_cons.mp hx with rfl | hx
    · exact (key l x).1
    · exact (key l a).2 x hx

theorem inv1_advanceRound (s : Node) (r : Nat) (ev : Evidence) (h : Inv1 s) :
    Inv1 (s.advanceRound r ev) := by
  unfold advanceRound
  split
  · exact h
  · constructor <;> simp [emit, Node.pendingBlocks] <;> grind [Inv1, Node.pendingBlocks]

theorem inv1_updateHighQC (s : Node) (qc : QC) (h : Inv1 s) (hq : qc.round < s.round) :
    Inv1 (s.updateHighQC qc) := by
  unfold updateHighQC
  split
  · constructor <;> simp [Node.pendingBlocks] <;> grind [Inv1, Node.pendingBlocks]
  · exact h

theorem advanceRound_round_gt (s : Node) (r : Nat) (ev : Evidence) :
    r < (s.advanceRound r ev).round ∧ s.round ≤ (s.advanceRound r ev).round := by
  unfold advanceRound; split <;> simp [emit] <;> omega

theorem inv1_processQC (s : Node) (qc : QC) (h : Inv1 s) : Inv1 (s.processQC qc) := by
  unfold processQC
  apply inv1_updateHighQC _ _ (inv1_advanceRound s qc.round _ h)
  exact (advanceRound_round_gt s qc.round _).1

theorem processQC_facts (s : Node) (qc : QC) :
    qc.round < (s.processQC qc).round ∧ qc.round ≤ (s.processQC qc).highQC.round ∧
    s.round ≤ (s.processQC qc).round := by
  unfold processQC updateHighQC advanceRound
  split <;> split <;> simp at * <;> omega

theorem inv1_setAgg (s : Node) (a : Aggregator) (h : Inv1 s) : Inv1 { s with agg := a } := by
  constructor <;> simp [Node.pendingBlocks] <;> grind [Inv1, Node.pendingBlocks]

theorem inv1_generateProposal (s : Node) (tc : Option TC) (h : Inv1 s) :
    Inv1 (s.generateProposal tc) := by
  unfold generateProposal
  constructor <;> simp [Node.pendingBlocks] <;> grind [Inv1, Node.pendingBlocks]

theorem inv1_handleVote (c : Committee) (s : Node) (v : Vote) (h : Inv1 s) :
    Inv1 (s.handleVote c v) := by
  unfold handleVote
  split
  · exact h
  · split
    · exact h
    · split
      · exact h
      · exact inv1_setAgg _ _ h
      · have h1 := inv1_processQC _ ‹QC› (inv1_setAgg s ‹Aggregator› h)
        simp only []
        split
        · exact inv1_generateProposal _ _ h1
        · exact h1

theorem inv1_emit_tc (s : Node) (t : TC) (h : Inv1 s) : Inv1 (s.emit (.tc t)) := by
  constructor <;> simp [Node.pendingBlocks] <;> grind [Inv1, Node.pendingBlocks]

theorem inv1_handleTimeout (c : Committee) (s : Node) (t : Timeout) (h : Inv1 s) :
    Inv1 (s.handleTimeout c t) := by
  unfold handleTimeout
  split
  · exact h
  · split
    · exact h
    · have h0 := inv1_processQC s t.highQC h
      simp only []
      split
      · exact h0
      · exact inv1_setAgg _ _ h0
      · have h1 := inv1_emit_tc _ ‹TC› (inv1_advanceRound _ (‹TC›).round (.tc ‹TC›) (inv1_setAgg _ ‹Aggregator› h0))
        split
        · exact inv1_generateProposal _ _ h1
        · exact h1

theorem inv1_handleTC (c : Committee) (s : Node) (tc : TC) (h : Inv1 s) :
    Inv1 (s.handleTC c tc) := by
  unfold handleTC
  split
  · exact h
  · split
    · exact h
    · have h1 := inv1_advanceRound s tc.round (.tc tc) h
      simp only []
      split
      · exact inv1_generateProposal _ _ h1
      · exact h1

theorem inv1_localTimeout (c : Committee) (s : Node) (h : Inv1 s) : Inv1 (s.localTimeout c) := by
  unfold localTimeout
  apply inv1_handleTimeout
  constructor <;> simp [Node.pendingBlocks] <;> grind [Inv1, Node.pendingBlocks]

theorem inv1_fail (s : Node) (p : PanicSite) (h : Inv1 s) : Inv1 (s.fail p) := by
  unfold fail
  constructor <;> simp [Node.pendingBlocks] <;> grind [Inv1, Node.pendingBlocks]

/-- Outputs that Inv1 does not track. -/
def Out.untracked : Out → Bool
  | .voted _ => false
  | .timeout _ => false
  | .make _ _ _ => false
  | .propose _ => false
  | .helperReply _ _ => false
  | _ => true

theorem inv1_emit_untracked (s : Node) (o : Out) (ho : o.untracked = true) (h : Inv1 s) :
    Inv1 (s.emit o) := by
  cases o <;> simp [Out.untracked] at ho <;>
    (constructor <;> simp [Node.pendingBlocks] <;> grind [Inv1, Node.pendingBlocks])

theorem inv1_foldl_commit (l : List Block) (s : Node) (h : Inv1 s) :
    Inv1 (l.foldl (fun s x => s.emit (.commit x)) s) := by
  induction l generalizing s with
  | nil => exact h
  | cons a l ih => exact ih _ (inv1_emit_untracked s _ rfl h)

theorem inv1_setLastCommitted (s : Node) (r : Nat) (h : Inv1 s) :
    Inv1 { s with lastCommitted := r } := by
  constructor <;> simp [Node.pendingBlocks] <;> grind [Inv1, Node.pendingBlocks]

theorem inv1_commit (c : Committee) (s : Node) (b : Block) (h : Inv1 s) : Inv1 (commit c s b).1 := by
  unfold commit
  split
  · exact h
  · split
    · exact inv1_fail _ _ h
    · exact h
    · exact inv1_foldl_commit _ _ (inv1_setLastCommitted _ _ h)

theorem safetyRule2_true {b : Block} (h : safetyRule2 b = some true) : SafeExt b := by
  unfold safetyRule2 at h
  unfold SafeExt
  split at h
  · simp only [Option.some.injEq, beq_iff_eq] at h
    left; exact h
  · rename_i tc htc
    split at h
    · simp at h
    · rename_i m hm
      simp only [Option.some.injEq, Bool.or_eq_true, beq_iff_eq, Bool.and_eq_true,
        decide_eq_true_eq] at h
      rcases h with h | h
      · left; exact h
      · right
        refine ⟨tc, htc, h.1, ?_⟩
        intro x hx
        have := maxRounds_ge hm x hx
        omega

theorem inv1_makeVote (s : Node) (b : Block) (h : Inv1 s)
    (hb1 : b.qc.round < s.round) (hb2 : b.qc.round ≤ s.highQC.round) (hr : b.round = s.round) :
    Inv1 (s.makeVote b).1 := by
  unfold makeVote
  split
  · exact inv1_fail _ _ h
  · rename_i rule2 hrule
    split
    · rename_i hcond
      simp only [Bool.and_eq_true, decide_eq_true_eq] at hcond
      have hsafe : SafeExt b := safetyRule2_true (by rw [hrule, hcond.2])
      constructor <;> simp [Node.pendingBlocks] <;> grind [Inv1, Node.pendingBlocks]
    · exact h

theorem inv1_mempoolCleanup (s : Node) (r : Nat) (h : Inv1 s) : Inv1 (s.mempoolCleanup r) := by
  unfold mempoolCleanup
  apply inv1_emit_untracked _ _ rfl
  constructor <;> simp [Node.pendingBlocks] <;> grind [Inv1, Node.pendingBlocks]

/-- The parts of the state that only `Core`'s message handlers change. -/
def SameCore (s s' : Node) : Prop :=
  s'.round = s.round ∧ s'.highQC = s.highQC ∧ s'.lastVoted = s.lastVoted ∧ s'.name = s.name

theorem SameCore.refl (s : Node) : SameCore s s := ⟨rfl, rfl, rfl, rfl⟩
theorem SameCore.trans {a b c : Node} (h1 : SameCore a b) (h2 : SameCore b c) : SameCore a c := by
  unfold SameCore at *; grind

theorem sameCore_emit (s : Node) (o : Out) : SameCore s (s.emit o) := ⟨rfl, rfl, rfl, rfl⟩
theorem sameCore_fail (s : Node) (p : PanicSite) : SameCore s (s.fail p) := ⟨rfl, rfl, rfl, rfl⟩

theorem sameCore_park (c : Committee) (s : Node) (b : Block) : SameCore s (park c s b) := by
  unfold park SameCore
  (repeat' split) <;> simp [emit, fail]

theorem sameCore_getParent (c : Committee) (s : Node) (b : Block) :
    SameCore s (getParent c s b).1 := by
  unfold getParent
  split
  · exact SameCore.refl s
  · split
    · exact SameCore.refl s
    · exact SameCore.refl s
    · exact sameCore_park c s b

theorem sameCore_foldl_commit (l : List Block) (s : Node) :
    SameCore s (l.foldl (fun s x => s.emit (.commit x)) s) := by
  induction l generalizing s with
  | nil => exact SameCore.refl s
  | cons a l ih => exact SameCore.trans (sameCore_emit s _) (ih _)

theorem sameCore_commit (c : Committee) (s : Node) (b : Block) : SameCore s (commit c s b).1 := by
  unfold commit
  split
  · exact SameCore.refl s
  · split
    · exact sameCore_fail _ _
    · exact SameCore.refl s
    · exact SameCore.trans (b := { s with lastCommitted := b.round }) ⟨rfl, rfl, rfl, rfl⟩
        (sameCore_foldl_commit _ _)

theorem inv1_park (c : Committee) (s : Node) (b : Block) (h : Inv1 s)
    (hb : b.qc.round < s.round ∧ b.qc.round ≤ s.highQC.round) : Inv1 (park c s b) := by
  unfold park
  split
  · exact h
  · split
    · constructor <;> simp [Node.pendingBlocks] <;> grind [Inv1, Node.pendingBlocks]
    · have h2 : Inv1 { s with syncPending := s.syncPending ++ [b],
                              syncRequests := s.syncRequests ++ [b.parent] } := by
        constructor <;> simp [Node.pendingBlocks] <;> grind [Inv1, Node.pendingBlocks]
      split
      · exact inv1_emit_untracked _ _ rfl h2
      · exact inv1_fail _ _ h2

theorem inv1_getParent (c : Committee) (s : Node) (b : Block) (h : Inv1 s)
    (hb : b.qc.round < s.round ∧ b.qc.round ≤ s.highQC.round) : Inv1 (getParent c s b).1 := by
  unfold getParent
  split
  · exact h
  · split
    · exact h
    · exact h
    · exact inv1_park c s b h hb

theorem mem_of_lookup {α β : Type} [BEq α] [LawfulBEq α] {l : List (α × β)} {k : α} {b : β}
    (h : l.lookup k = some b) : (k, b) ∈ l := by
  obtain ⟨l1, l2, rfl, _⟩ := List.lookup_eq_some_iff.mp h
  simp

/-- A block returned by `getParent` is genesis or a stored block. -/
theorem getParent_found (c : Committee) (s : Node) (b p : Block)
    (h : (getParent c s b).2 = .found p) :
    p = Block.genesis ∨ p ∈ s.store.map Prod.snd := by
  unfold getParent at h
  split at h
  · simp at h; left; exact h.symm
  · split at h
    · rename_i p' hp
      simp at h
      subst h
      right
      unfold readBlock at hp
      split at hp
      · rename_i b' hb'
        simp at hp
        subst hp
        have := mem_of_lookup hb'
        exact List.mem_map.mpr ⟨_, this, rfl⟩
      · split at hp <;> (try split at hp) <;> simp at hp
    · simp at h
    · simp at h

theorem inv1_sendVote (c : Committee) (s : Node) (v : Vote) (h : Inv1 s) :
    Inv1 (sendVote c s v) := by
  unfold sendVote
  split
  · exact inv1_handleVote c _ v (inv1_emit_untracked s _ rfl h)
  · split
    · exact inv1_emit_untracked s _ rfl h
    · exact inv1_fail _ _ h

theorem inv1_voteStage (c : Committee) (s : Node) (ok : Bool) (b : Block) (h : Inv1 s)
    (hb : b.qc.round < s.round ∧ b.qc.round ≤ s.highQC.round) : Inv1 (voteStage c s ok b) := by
  unfold voteStage
  split
  · exact h
  · split
    · exact h
    · rename_i hr
      have hr' : b.round = s.round := by simpa using hr
      have hm := inv1_makeVote s b h hb.1 hb.2 hr'
      split
      · rename_i s' heq
        rw [heq] at hm; exact hm
      · rename_i s' v heq
        rw [heq] at hm
        exact inv1_sendVote c s' v hm

theorem inv1_afterStore (s : Node) (b0 b1 b : Block) (h : Inv1 s)
    (hb : b.qc.round < s.round ∧ b.qc.round ≤ s.highQC.round) : Inv1 (afterStore s b0 b1 b) := by
  unfold afterStore storeBlock
  constructor <;> simp [Node.pendingBlocks] <;> grind [Inv1, Node.pendingBlocks]

theorem sameCore_afterStore (s : Node) (b0 b1 b : Block) : SameCore s (afterStore s b0 b1 b) :=
  ⟨rfl, rfl, rfl, rfl⟩

theorem sameCore_beforeCommit (s : Node) (b0 b1 b : Block) : SameCore s (beforeCommit s b0 b1 b) :=
  ⟨rfl, rfl, rfl, rfl⟩

theorem inv1_beforeCommit (s : Node) (b0 b1 b : Block) (h : Inv1 s)
    (hb : b.qc.round < s.round ∧ b.qc.round ≤ s.highQC.round) : Inv1 (beforeCommit s b0 b1 b) := by
  unfold beforeCommit
  exact inv1_emit_untracked _ _ rfl (inv1_mempoolCleanup _ _ (inv1_afterStore s b0 b1 b h hb))

theorem inv1_processBlockTail (c : Committee) (s : Node) (b0 b1 b : Block) (h : Inv1 s)
    (hb : b.qc.round < s.round ∧ b.qc.round ≤ s.highQC.round) :
    Inv1 (processBlockTail c s b0 b1 b) := by
  unfold processBlockTail
  split
  · apply inv1_voteStage
    · exact inv1_commit c _ b0 (inv1_beforeCommit s b0 b1 b h hb)
    · have h1 := SameCore.trans (sameCore_beforeCommit s b0 b1 b) (sameCore_commit c (beforeCommit s b0 b1 b) b0)
      unfold SameCore at h1
      rw [h1.1, h1.2.1]; exact hb
  · apply inv1_voteStage
    · exact inv1_afterStore s b0 b1 b h hb
    · exact hb

theorem inv1_processBlock (c : Committee) (s : Node) (b : Block) (h : Inv1 s)
    (hb : b.qc.round < s.round ∧ b.qc.round ≤ s.highQC.round) : Inv1 (processBlock c s b) := by
  unfold processBlock
  have h1 := inv1_getParent c s b h hb
  have c1 := sameCore_getParent c s b
  split
  · exact h1
  · exact h1
  · rename_i b1 hb1
    have hb1s : b1.qc.round < s.round ∧ b1.qc.round ≤ s.highQC.round := by
      rcases getParent_found c s b b1 hb1 with rfl | hmem
      · simp [Block.genesis, QC.genesis]; have := h.hq_lt; omega
      · apply h.blocks
        simp [Node.pendingBlocks]
        right; right; right
        simpa using hmem
    have hb1' : b1.qc.round < (getParent c s b).1.round ∧
        b1.qc.round ≤ (getParent c s b).1.highQC.round := by
      unfold SameCore at c1; rw [c1.1, c1.2.1]; exact hb1s
    have h2 := inv1_getParent c _ b1 h1 hb1'
    have c2 := SameCore.trans c1 (sameCore_getParent c (getParent c s b).1 b1)
    split
    · exact inv1_fail _ _ h2
    · exact h2
    · apply inv1_processBlockTail c _ _ _ _ h2
      unfold SameCore at c2; rw [c2.1, c2.2.1]; exact hb

theorem inv1_payloadVerify (s : Node) (b : Block) (h : Inv1 s)
    (hb : b.qc.round < s.round ∧ b.qc.round ≤ s.highQC.round) : Inv1 (s.payloadVerify b).1 := by
  unfold payloadVerify
  simp only []
  split
  · exact h
  · split
    · exact inv1_emit_untracked _ _ rfl h
    · have := inv1_emit_untracked s (.mempoolSync (b.payload.filter (fun d => !s.avail.contains d)) b.author) rfl h
      constructor <;> simp [Node.pendingBlocks] <;> grind [Inv1, Node.pendingBlocks]

theorem sameCore_payloadVerify (s : Node) (b : Block) : SameCore s (s.payloadVerify b).1 := by
  unfold payloadVerify SameCore
  simp only []
  (repeat' split) <;> simp

theorem advanceRound_facts (s : Node) (r : Nat) (ev : Evidence) :
    s.round ≤ (s.advanceRound r ev).round ∧ (s.advanceRound r ev).highQC = s.highQC := by
  unfold advanceRound; split <;> simp <;> omega

theorem inv1_proposalTail (c : Committee) (s : Node) (b : Block) (h : Inv1 s)
    (hb : b.qc.round < s.round ∧ b.qc.round ≤ s.highQC.round) : Inv1 (proposalTail c s b) := by
  unfold proposalTail
  have hp := inv1_payloadVerify s b h hb
  have cp := sameCore_payloadVerify s b
  split
  · rename_i s3 heq; rw [heq] at hp; exact hp
  · rename_i s3 heq
    rw [heq] at hp cp
    apply inv1_processBlock c s3 b hp
    unfold SameCore at cp; rw [cp.1, cp.2.1]; exact hb

theorem inv1_advanceTC (s : Node) (tc : Option TC) (h : Inv1 s) : Inv1 (s.advanceTC tc) := by
  unfold advanceTC
  split
  · exact inv1_advanceRound _ _ _ h
  · exact h

theorem advanceTC_facts (s : Node) (tc : Option TC) :
    s.round ≤ (s.advanceTC tc).round ∧ (s.advanceTC tc).highQC = s.highQC := by
  unfold advanceTC
  split
  · exact advanceRound_facts _ _ _
  · exact ⟨Nat.le_refl _, rfl⟩

theorem inv1_handleProposal (c : Committee) (s : Node) (b : Block) (h : Inv1 s) :
    Inv1 (s.handleProposal c b) := by
  unfold handleProposal
  split
  · exact h
  · split
    · exact h
    · have f1 := processQC_facts s b.qc
      have f2 := advanceTC_facts (s.processQC b.qc) b.tc
      apply inv1_proposalTail c _ b (inv1_advanceTC _ _ (inv1_processQC s b.qc h))
      rw [f2.2]; omega

theorem inv1_proposerStep (s : Node) (order : List Nat) (h : Inv1 s) :
    Inv1 (s.proposerStep order) := by
  unfold proposerStep
  split
  · exact h
  · rename_i ds rest hq
    constructor <;> simp [Node.pendingBlocks] <;> grind [Inv1, Node.pendingBlocks]
  · rename_i r qc tc rest hq
    split
    · exact h
    · have hm := h.makes r qc tc (by rw [hq]; simp)
      constructor <;> simp [Node.pendingBlocks] <;>
        grind [Inv1, Node.pendingBlocks, ownBlock_qc, ownBlock_round]

theorem readBlock_found_mem (s : Node) (d : Digest) (b : Block) (h : s.readBlock d = .found b) :
    b ∈ s.store.map Prod.snd := by
  unfold readBlock at h
  split at h
  · rename_i b' hb'
    simp at h; subst h
    exact List.mem_map.mpr ⟨_, mem_of_lookup hb', rfl⟩
  · split at h <;> (try split at h) <;> simp at h

theorem inv1_helperStep (c : Committee) (s : Node) (d : Digest) (o : Nat) (h : Inv1 s) :
    Inv1 (s.helperStep c d o) := by
  unfold helperStep
  split
  · exact h
  · split
    · rename_i b hb
      have hm := readBlock_found_mem s d b hb
      have hbk := h.blocks b (by simp [Node.pendingBlocks]; right; right; right; simpa using hm)
      constructor <;> simp [Node.pendingBlocks] <;> grind [Inv1, Node.pendingBlocks]
    · exact h
    · split
      · exact h
      · exact inv1_fail _ _ h

theorem mem_removeAt {α : Type} (l : List α) (i : Nat) (x : α) (h : x ∈ removeAt l i) : x ∈ l := by
  unfold removeAt at h
  rcases List.mem_append.mp h with h | h
  · exact List.mem_of_mem_take h
  · exact List.mem_of_mem_drop h

theorem inv1_storeBatch (s : Node) (d : Nat) (h : Inv1 s) : Inv1 (s.storeBatch d) := by
  unfold storeBatch
  split
  · exact h
  · constructor <;> simp [Node.pendingBlocks] <;> grind [Inv1, Node.pendingBlocks]

theorem inv1_digestStep (s : Node) (d : Nat) (h : Inv1 s) : Inv1 (s.digestStep d) := by
  unfold digestStep
  have h1 := inv1_storeBatch s d h
  split
  · exact h1
  · constructor <;> simp [Node.pendingBlocks] <;> grind [Inv1, Node.pendingBlocks]

theorem inv1_step (c : Committee) (s : Node) (e : Event) (h : Inv1 s) : Inv1 (step c s e) := by
  unfold step
  split
  · exact h
  · split
    · exact inv1_handleProposal c s _ h
    · exact inv1_handleVote c s _ h
    · exact inv1_handleTimeout c s _ h
    · exact inv1_handleTC c s _ h
    · exact inv1_localTimeout c s h
    · split
      · exact h
      · rename_i b rest hq
        have hb := h.blocks b (by simp [Node.pendingBlocks, hq])
        refine inv1_processBlock c _ b ?_ hb
        constructor <;> simp [Node.pendingBlocks] <;> grind [Inv1, Node.pendingBlocks]
    · exact inv1_proposerStep s _ h
    · exact inv1_digestStep s _ h
    · exact inv1_storeBatch s _ h
    · split
      · exact h
      · rename_i i _ b hb
        have hmem : b ∈ s.syncPending := List.mem_of_getElem? hb
        have hbk := h.blocks b (by simp [Node.pendingBlocks, hmem])
        split
        · exact h
        · have hsub : ∀ x ∈ removeAt s.syncPending i, x ∈ s.syncPending := fun x hx => mem_removeAt _ _ _ hx
          constructor <;> simp [Node.pendingBlocks] <;> grind [Inv1, Node.pendingBlocks]
    · split
      · exact h
      · rename_i i _ b missing hb
        have hmem : (b, missing) ∈ s.payPending := List.mem_of_getElem? hb
        have hbk := h.blocks b (by
          simp [Node.pendingBlocks]; right; right; left; exact ⟨missing, hmem⟩)
        split
        · have hsub : ∀ x ∈ removeAt s.payPending i, x ∈ s.payPending := fun x hx => mem_removeAt _ _ _ hx
          constructor <;> simp [Node.pendingBlocks] <;> grind [Inv1, Node.pendingBlocks]
        · exact h
    · split
      · exact inv1_emit_untracked _ _ rfl h
      · exact h
    · exact inv1_helperStep c s _ _ h

theorem inv1_init (c : Committee) (name : Nat) : Inv1 (Node.init c name) := by
  unfold Node.init
  simp only []
  split <;> (constructor <;> simp [Node.pendingBlocks, QC.genesis] <;> grind)

theorem inv1_run (c : Committee) (s : Node) (es : List Event) (h : Inv1 s) : Inv1 (run c s es) := by
  unfold run
  induction es generalizing s with
  | nil => exact h
  | cons e es ih => exact ih _ (inv1_step c s e h)

end HS
