import HotstuffModel.Proofs.Ordering
import HotstuffModel.Proofs.NodeExt
/-
The vote MESSAGES of a node (sent to the next leader, or handled locally when the node is the
next leader itself) are tied to the ghost record `voted b` that `make_vote` leaves: every vote
message is emitted directly on top of a `voted b`, is the vote for exactly that block, signed by
the node, and addressed to the leader of the next round.  The theorems of C03 about `voted`
therefore speak about what is on the wire.
-/
namespace HS
open Node

def Out.isVoteOut : Out → Bool
  | .vote _ _ => true
  | .selfVote _ => true
  | _ => false

/-- The vote `make_vote` builds for `b` when the node is `name`. -/
def voteFor (name : Nat) (b : Block) : Vote :=
  { hash := b.digest, round := b.round, author := name, sig := ⟨name, .vote b.digest b.round⟩ }

/-- Every vote message in the history sits directly on top of the `voted` record it belongs to. -/
def WireOK (c : Committee) (name : Nat) : List Out → Prop
  | [] => True
  | .vote to v :: rest =>
    (∃ b r, rest = .voted b :: r ∧ v = voteFor name b ∧ to = c.leader (b.round + 1) ∧ to ≠ name) ∧
      WireOK c name rest
  | .selfVote v :: rest =>
    (∃ b r, rest = .voted b :: r ∧ v = voteFor name b ∧ name = c.leader (b.round + 1)) ∧
      WireOK c name rest
  | _ :: rest => WireOK c name rest

theorem wireOK_cons_other (c : Committee) (name : Nat) (o : Out) (h : List Out)
    (ho : o.isVoteOut = false) : WireOK c name (o :: h) ↔ WireOK c name h := by
  cases o <;> simp [Out.isVoteOut] at ho <;> simp [WireOK]

theorem wireOK_append_other (c : Committee) (name : Nat) (new h : List Out)
    (hn : ∀ o ∈ new, o.isVoteOut = false) (hh : WireOK c name h) : WireOK c name (new ++ h) := by
  induction new with
  | nil => simpa using hh
  | cons o new ih =>
    rw [List.cons_append, wireOK_cons_other c name o _ (hn o (by simp))]
    exact ih (fun x hx => hn x (by simp [hx]))

theorem wireOK_suffix (c : Committee) (name : Nat) (a h : List Out) (hh : WireOK c name (a ++ h)) :
    WireOK c name h := by
  induction a with
  | nil => simpa using hh
  | cons o a ih =>
    apply ih
    cases o <;> simp [WireOK] at hh <;> first | exact hh | exact hh.2

/-- No vote message emitted, name untouched. -/
structure VFrame (s s' : Node) : Prop where
  name : s'.name = s.name
  hist : ∃ new, s'.hist = new ++ s.hist ∧ ∀ o ∈ new, o.isVoteOut = false

theorem VFrame.refl (s : Node) : VFrame s s := ⟨rfl, [], by simp, by simp⟩
theorem VFrame.of_eq {s s' : Node} (hn : s'.name = s.name) (hh : s'.hist = s.hist) : VFrame s s' :=
  ⟨hn, [], by simp [hh], by simp⟩
theorem VFrame.trans {a b c : Node} (h1 : VFrame a b) (h2 : VFrame b c) : VFrame a c := by
  obtain ⟨n1, e1, p1⟩ := h1.hist
  obtain ⟨n2, e2, p2⟩ := h2.hist
  refine ⟨h2.name.trans h1.name, n2 ++ n1, by rw [e2, e1]; simp, ?_⟩
  intro o ho
  rcases List.mem_append.mp ho with h | h
  · exact p2 o h
  · exact p1 o h

theorem VFrame.wire {c : Committee} {s s' : Node} (h : VFrame s s') (hw : WireOK c s.name s.hist) :
    WireOK c s'.name s'.hist := by
  obtain ⟨new, e, p⟩ := h.hist
  rw [h.name, e]
  exact wireOK_append_other c s.name new _ p hw

theorem vframe_emit (s : Node) (o : Out) (ho : o.isVoteOut = false) : VFrame s (s.emit o) :=
  ⟨rfl, [o], rfl, by simp [ho]⟩
theorem vframe_fail (s : Node) (p : PanicSite) : VFrame s (s.fail p) := VFrame.of_eq rfl rfl

theorem vframe_advanceRound (s : Node) (r : Nat) (ev : Evidence) : VFrame s (s.advanceRound r ev) := by
  unfold advanceRound; split
  · exact VFrame.refl s
  · exact VFrame.trans (b := { s with round := r + 1, agg := s.agg.cleanup (r + 1) }) (VFrame.of_eq rfl rfl)
      (vframe_emit _ _ rfl)

theorem vframe_updateHighQC (s : Node) (qc : QC) : VFrame s (s.updateHighQC qc) := by
  unfold updateHighQC; split
  · exact VFrame.of_eq rfl rfl
  · exact VFrame.refl s

theorem vframe_processQC (s : Node) (qc : QC) : VFrame s (s.processQC qc) :=
  VFrame.trans (vframe_advanceRound s _ _) (vframe_updateHighQC _ _)

theorem vframe_generateProposal (s : Node) (tc : Option TC) : VFrame s (s.generateProposal tc) := by
  unfold generateProposal
  exact VFrame.trans (b := { s with propQ := s.propQ ++ [PMsg.make s.round s.highQC tc] })
    (VFrame.of_eq rfl rfl) (vframe_emit _ _ rfl)

theorem vframe_handleVote (c : Committee) (s : Node) (v : Vote) : VFrame s (s.handleVote c v) := by
  unfold handleVote
  split
  · exact VFrame.refl s
  · split
    · exact VFrame.refl s
    · split
      · exact VFrame.refl s
      · exact VFrame.of_eq rfl rfl
      · rename_i agg qc _
        simp only []
        have h1 : VFrame s (({ s with agg := agg }).processQC qc) :=
          VFrame.trans (b := { s with agg := agg }) (VFrame.of_eq rfl rfl) (vframe_processQC _ _)
        split
        · exact VFrame.trans h1 (vframe_generateProposal _ _)
        · exact h1

theorem vframe_handleTimeout (c : Committee) (s : Node) (t : Timeout) : VFrame s (s.handleTimeout c t) := by
  unfold handleTimeout
  split
  · exact VFrame.refl s
  · split
    · exact VFrame.refl s
    · simp only []
      have h0 := vframe_processQC s t.highQC
      split
      · exact h0
      · exact VFrame.trans h0 (VFrame.of_eq rfl rfl)
      · rename_i agg tc _
        have ha : VFrame (s.processQC t.highQC) ({ (s.processQC t.highQC) with agg := agg }) :=
          VFrame.of_eq rfl rfl
        have h1 := VFrame.trans (VFrame.trans (VFrame.trans h0 ha) (vframe_advanceRound _ tc.round (.tc tc)))
          (vframe_emit _ (.tc tc) rfl)
        split
        · exact VFrame.trans h1 (vframe_generateProposal _ _)
        · exact h1

theorem vframe_handleTC (c : Committee) (s : Node) (tc : TC) : VFrame s (s.handleTC c tc) := by
  unfold handleTC
  split
  · exact VFrame.refl s
  · split
    · exact VFrame.refl s
    · simp only []
      split
      · exact VFrame.trans (vframe_advanceRound s _ _) (vframe_generateProposal _ _)
      · exact vframe_advanceRound s _ _

theorem vframe_localTimeout (c : Committee) (s : Node) : VFrame s (s.localTimeout c) := by
  unfold localTimeout
  refine VFrame.trans ?_ (vframe_handleTimeout c _ _)
  exact VFrame.trans (b := { s with lastVoted := max s.lastVoted s.round }) (VFrame.of_eq rfl rfl)
    (vframe_emit _ _ rfl)

theorem vframe_park (c : Committee) (s : Node) (b : Block) : VFrame s (park c s b) := by
  unfold park
  split
  · exact VFrame.refl s
  · split
    · exact VFrame.of_eq rfl rfl
    · split
      · exact VFrame.trans (b := { s with syncPending := s.syncPending ++ [b], syncRequests := s.syncRequests ++ [b.parent] })
          (VFrame.of_eq rfl rfl) (vframe_emit _ _ rfl)
      · exact VFrame.of_eq rfl rfl

theorem vframe_getParent (c : Committee) (s : Node) (b : Block) : VFrame s (getParent c s b).1 := by
  unfold getParent
  split
  · exact VFrame.refl s
  · split
    · exact VFrame.refl s
    · exact VFrame.refl s
    · exact vframe_park c s b

theorem vframe_afterStore (s : Node) (b0 b1 b : Block) : VFrame s (afterStore s b0 b1 b) :=
  VFrame.of_eq rfl rfl

theorem vframe_mempoolCleanup (s : Node) (r : Nat) : VFrame s (s.mempoolCleanup r) := by
  unfold mempoolCleanup
  exact VFrame.trans (b := { s with payPending := s.payPending.filter (fun e => e.1.round > r) })
    (VFrame.of_eq rfl rfl) (vframe_emit _ _ rfl)

theorem vframe_beforeCommit (s : Node) (b0 b1 b : Block) : VFrame s (beforeCommit s b0 b1 b) := by
  unfold beforeCommit
  exact VFrame.trans (VFrame.trans (vframe_afterStore s b0 b1 b) (vframe_mempoolCleanup _ _)) (vframe_emit _ _ rfl)

theorem vframe_payloadVerify (s : Node) (b : Block) : VFrame s (s.payloadVerify b).1 := by
  unfold payloadVerify
  simp only []
  split
  · exact VFrame.refl s
  · split
    · exact vframe_emit s _ rfl
    · exact VFrame.trans (vframe_emit s _ rfl) (VFrame.of_eq rfl rfl)

theorem vframe_advanceTC (s : Node) (tc : Option TC) : VFrame s (s.advanceTC tc) := by
  unfold advanceTC; split
  · exact vframe_advanceRound _ _ _
  · exact VFrame.refl s

theorem vframe_foldCommit (l : List Block) (s : Node) :
    VFrame s (l.foldl (fun s x => s.emit (.commit x)) s) := by
  induction l generalizing s with
  | nil => exact VFrame.refl s
  | cons x l ih => exact VFrame.trans (vframe_emit s _ rfl) (ih _)

theorem vframe_commit (c : Committee) (s : Node) (b : Block) : VFrame s (commit c s b).1 := by
  unfold commit
  split
  · exact VFrame.refl s
  · split
    · exact vframe_fail _ _
    · exact VFrame.refl s
    · exact VFrame.trans (b := { s with lastCommitted := b.round }) (VFrame.of_eq rfl rfl) (vframe_foldCommit _ _)

/-! ### the one place where vote messages are emitted -/

theorem wire_sendVote (c : Committee) (s : Node) (b : Block) (rest : List Out)
    (hh : s.hist = .voted b :: rest) (hr : b.round = s.round) (hw : WireOK c s.name rest) :
    WireOK c (sendVote c s (voteFor s.name b)).name (sendVote c s (voteFor s.name b)).hist := by
  unfold sendVote
  split
  · rename_i hl
    have hl' : c.leader (s.round + 1) = s.name := by simpa using hl
    apply (vframe_handleVote c _ _).wire
    show WireOK c s.name (.selfVote (voteFor s.name b) :: s.hist)
    rw [hh]
    simp only [WireOK]
    exact ⟨⟨b, rest, rfl, rfl, by rw [hr, hl']⟩, hw⟩
  · rename_i hl
    have hl' : c.leader (s.round + 1) ≠ s.name := by simpa using hl
    split
    · show WireOK c s.name (.vote _ (voteFor s.name b) :: s.hist)
      rw [hh]
      simp only [WireOK]
      exact ⟨⟨b, rest, rfl, rfl, by rw [hr], hl'⟩, hw⟩
    · show WireOK c s.name s.hist
      rw [hh]; simpa [WireOK] using hw

theorem makeVote_cases (s : Node) (b : Block) :
    ((s.makeVote b).2 = none ∧ VFrame s (s.makeVote b).1) ∨
    ((s.makeVote b).2 = some (voteFor s.name b) ∧ (s.makeVote b).1.hist = .voted b :: s.hist ∧
      (s.makeVote b).1.name = s.name ∧ (s.makeVote b).1.round = s.round) := by
  unfold makeVote
  split
  · left; exact ⟨rfl, vframe_fail _ _⟩
  · split
    · right; exact ⟨rfl, rfl, rfl, rfl⟩
    · left; exact ⟨rfl, VFrame.refl s⟩

theorem wire_voteStage (c : Committee) (s : Node) (ok : Bool) (b : Block)
    (hw : WireOK c s.name s.hist) :
    WireOK c (voteStage c s ok b).name (voteStage c s ok b).hist := by
  unfold voteStage
  split
  · exact hw
  · split
    · exact hw
    · rename_i hr
      have hr' : b.round = s.round := by simpa using hr
      have hc := makeVote_cases s b
      split
      · rename_i s' heq
        rw [heq] at hc
        rcases hc with ⟨_, hf⟩ | ⟨h2, _⟩
        · exact hf.wire hw
        · simp at h2
      · rename_i s' v heq
        rw [heq] at hc
        rcases hc with ⟨h2, _⟩ | ⟨h2, hh, hn, hrr⟩
        · simp at h2
        · simp only at h2 hh hn hrr
          have hv : v = voteFor s.name b := by simpa using h2
          subst hv
          rw [← hn]
          exact wire_sendVote c s' b s.hist hh (by rw [hrr]; exact hr') (by rw [hn]; exact hw)

theorem wire_processBlockTail (c : Committee) (s : Node) (b0 b1 b : Block)
    (hw : WireOK c s.name s.hist) :
    WireOK c (processBlockTail c s b0 b1 b).name (processBlockTail c s b0 b1 b).hist := by
  unfold processBlockTail
  split
  · apply wire_voteStage
    exact (VFrame.trans (vframe_beforeCommit s b0 b1 b) (vframe_commit c _ b0)).wire hw
  · apply wire_voteStage
    exact (vframe_afterStore s b0 b1 b).wire hw

theorem wire_processBlock (c : Committee) (s : Node) (b : Block) (hw : WireOK c s.name s.hist) :
    WireOK c (processBlock c s b).name (processBlock c s b).hist := by
  unfold processBlock
  have f1 := vframe_getParent c s b
  split
  · exact f1.wire hw
  · exact f1.wire hw
  · rename_i b1 _
    have f2 := VFrame.trans f1 (vframe_getParent c (getParent c s b).1 b1)
    split
    · exact (VFrame.trans f2 (vframe_fail _ _)).wire hw
    · exact f2.wire hw
    · exact wire_processBlockTail c _ _ _ _ (f2.wire hw)

theorem wire_step (c : Committee) (s : Node) (e : Event) (hw : WireOK c s.name s.hist) :
    WireOK c (step c s e).name (step c s e).hist := by
  unfold step
  split
  · exact hw
  · split
    · rename_i b
      unfold handleProposal
      split
      · exact hw
      · split
        · exact hw
        · have f1 : VFrame s ((s.processQC b.qc).advanceTC b.tc) :=
            VFrame.trans (vframe_processQC s b.qc) (vframe_advanceTC _ b.tc)
          unfold proposalTail
          have fp := vframe_payloadVerify ((s.processQC b.qc).advanceTC b.tc) b
          split
          · rename_i s' heq; rw [heq] at fp; exact (VFrame.trans f1 fp).wire hw
          · rename_i s' heq; rw [heq] at fp
            exact wire_processBlock c s' b ((VFrame.trans f1 fp).wire hw)
    · exact (vframe_handleVote c s _).wire hw
    · exact (vframe_handleTimeout c s _).wire hw
    · exact (vframe_handleTC c s _).wire hw
    · exact (vframe_localTimeout c s).wire hw
    · split
      · exact hw
      · rename_i b rest hq
        exact wire_processBlock c { s with loopQ := rest } b hw
    · unfold proposerStep
      split
      · exact hw
      · exact hw
      · split
        · exact hw
        · exact (VFrame.trans (b := { s with propQ := _, buffer := [], loopQ := _ }) (VFrame.of_eq rfl rfl)
            (vframe_emit _ _ rfl)).wire hw
    · unfold digestStep storeBatch
      (repeat' split) <;> exact hw
    · unfold storeBatch
      split <;> exact hw
    · split
      · exact hw
      · split
        · exact hw
        · exact hw
    · split
      · exact hw
      · split
        · exact hw
        · exact hw
    · split
      · exact (vframe_emit s _ rfl).wire hw
      · exact hw
    · unfold helperStep
      split
      · exact hw
      · split
        · exact (vframe_emit s _ rfl).wire hw
        · exact hw
        · first
            | exact hw
            | (split
               · exact hw
               · exact hw)

theorem wire_init (c : Committee) (name : Nat) : WireOK c (init c name).name (init c name).hist := by
  unfold init
  simp only []
  split <;> simp [WireOK]

theorem wire_run (c : Committee) (s : Node) (es : List Event) (hw : WireOK c s.name s.hist) :
    WireOK c (run c s es).name (run c s es).hist := by
  induction es generalizing s with
  | nil => exact hw
  | cons e es ih => exact ih _ (wire_step c s e hw)

theorem reachable_wire (c : Committee) (name : Nat) (es : List Event) :
    WireOK c (run c (init c name) es).name (run c (init c name) es).hist :=
  wire_run c _ es (wire_init c name)

end HS
