/-
Weighted quorum intersection for arbitrary stake functions (core Lean only).
-/
namespace HS.Q

def weight (stake : Nat → Nat) (l : List Nat) : Nat := (l.map stake).sum

@[simp] theorem weight_nil (s : Nat → Nat) : weight s [] = 0 := rfl
@[simp] theorem weight_cons (s : Nat → Nat) (a : Nat) (l : List Nat) :
    weight s (a :: l) = s a + weight s l := by simp [weight]

theorem weight_append (s : Nat → Nat) (a b : List Nat) :
    weight s (a ++ b) = weight s a + weight s b := by
  simp [weight, List.sum_append]

theorem weight_erase (s : Nat → Nat) (a : Nat) (l : List Nat) (h : a ∈ l) :
    weight s l = s a + weight s (l.erase a) := by
  induction l with
  | nil => cases h
  | cons x xs ih =>
    by_cases hx : x = a
    · subst hx; simp
    · have : a ∈ xs := by
        cases h with
        | head => exact absurd rfl hx
        | tail _ h => exact h
      have hne : (x == a) = false := by simpa using hx
      simp [List.erase_cons, hne, ih this]; omega

/-- A duplicate-free list contained in `n` weighs at most `n`. -/
theorem weight_le_of_subset (s : Nat → Nat) :
    ∀ (l n : List Nat), l.Nodup → (∀ x ∈ l, x ∈ n) → weight s l ≤ weight s n := by
  intro l
  induction l with
  | nil => intro n _ _; simp
  | cons a l ih =>
    intro n hnd hsub
    have ha : a ∈ n := hsub a (by simp)
    rw [weight_erase s a n ha]
    have hnd' := List.nodup_cons.mp hnd
    have : weight s l ≤ weight s (n.erase a) := by
      apply ih _ hnd'.2
      intro x hx
      have hxn : x ∈ n := hsub x (by simp [hx])
      have hxa : x ≠ a := fun e => hnd'.1 (e ▸ hx)
      exact (List.mem_erase_of_ne hxa).mpr hxn
    simp; omega

theorem weight_filter_split (s : Nat → Nat) (p : Nat → Bool) (l : List Nat) :
    weight s l = weight s (l.filter p) + weight s (l.filter (fun x => !p x)) := by
  induction l with
  | nil => simp
  | cons a l ih =>
    by_cases h : p a <;> simp [List.filter_cons, h, ih] <;> omega

/-- Inclusion–exclusion bound. -/
theorem weight_inter (s : Nat → Nat) (n a b : List Nat)
    (ha : a.Nodup) (hb : b.Nodup) (han : ∀ x ∈ a, x ∈ n) (hbn : ∀ x ∈ b, x ∈ n) :
    weight s a + weight s b ≤ weight s n + weight s (a.filter (fun x => decide (x ∈ b))) := by
  -- a = (a ∩ b) ++ (a \ b); (a \ b) ++ b is duplicate-free and inside n
  have hsplit := weight_filter_split s (fun x => decide (x ∈ b)) a
  have hnd : ((a.filter (fun x => !decide (x ∈ b))) ++ b).Nodup := by
    rw [List.nodup_append]
    refine ⟨ha.filter _, hb, ?_⟩
    intro x hx y hy hxy
    subst hxy
    simp [List.mem_filter] at hx
    exact hx.2 hy
  have hsub : ∀ x ∈ (a.filter (fun x => !decide (x ∈ b))) ++ b, x ∈ n := by
    intro x hx
    rcases List.mem_append.mp hx with h | h
    · exact han x (List.mem_filter.mp h).1
    · exact hbn x h
  have := weight_le_of_subset s _ n hnd hsub
  rw [weight_append] at this
  omega

/-- Two quorums share a member outside any set of weight ≤ f, when 2q > total + f. -/
theorem quorum_intersection (s : Nat → Nat) (n a b : List Nat) (bad : Nat → Bool) (q f : Nat)
    (ha : a.Nodup) (hb : b.Nodup) (han : ∀ x ∈ a, x ∈ n) (hbn : ∀ x ∈ b, x ∈ n)
    (hn : n.Nodup) (hqa : q ≤ weight s a) (hqb : q ≤ weight s b)
    (hbad : weight s (n.filter bad) ≤ f) (hq : weight s n + f < 2 * q) :
    ∃ x, x ∈ a ∧ x ∈ b ∧ bad x = false := by
  have hint := weight_inter s n a b ha hb han hbn
  -- the common part weighs more than f
  have hcommon : f < weight s (a.filter (fun x => decide (x ∈ b))) := by omega
  -- if every common member were bad, the common part would sit inside the bad members of n
  apply Classical.byContradiction
  intro hno
  have hallbad : ∀ x ∈ a.filter (fun x => decide (x ∈ b)), x ∈ n.filter bad := by
    intro x hx
    have hx' := List.mem_filter.mp hx
    have hxb : x ∈ b := by simpa using hx'.2
    apply List.mem_filter.mpr
    refine ⟨han x hx'.1, ?_⟩
    cases hbx : bad x with
    | true => rfl
    | false => exact absurd ⟨x, hx'.1, hxb, hbx⟩ hno
  have := weight_le_of_subset s _ (n.filter bad) (ha.filter _) hallbad
  omega

/-- The intersection of two quorums weighs more than `2q - total`. -/
theorem quorum_overlap_weight (s : Nat → Nat) (n a b : List Nat) (q : Nat)
    (ha : a.Nodup) (hb : b.Nodup) (han : ∀ x ∈ a, x ∈ n) (hbn : ∀ x ∈ b, x ∈ n)
    (hqa : q ≤ weight s a) (hqb : q ≤ weight s b) :
    2 * q ≤ weight s n + weight s (a.filter (fun x => decide (x ∈ b))) := by
  have := weight_inter s n a b ha hb han hbn
  omega

end HS.Q
