import HotstuffModel.Model.Base64
import HotstuffModel.Model.Json
import HotstuffModel.Proofs.Bytes
/-!
Round-trip and alphabet lemmas for the base64 model, the key codecs and the JSON string layer.
-/
namespace HS.Wire

/-- A property of all bytes can be checked on the 256 values. -/
theorem forall_uint8 (P : UInt8 → Prop) (h : ∀ n, n < 256 → P (UInt8.ofNat n)) : ∀ c, P c := by
  intro c
  have := h c.toNat c.toNat_lt
  rwa [UInt8.ofNat_toNat] at this

end HS.Wire

namespace HS.Wire.Base64

theorem decSym_encSym : ∀ s, s < 64 → decSym (encSym s) = some s := by decide

theorem decSym_pad : decSym pad = none := by decide

theorem encSym_ne_pad (s : Nat) (h : s < 64) : encSym s ≠ pad := by
  intro hc
  have := decSym_encSym s h
  rw [hc, decSym_pad] at this
  exact absurd this (by simp)

theorem quad_enc (a b c : UInt8) :
    quad (encSym (a.toNat / 4)) (encSym (a.toNat % 4 * 16 + b.toNat / 16))
      (encSym (b.toNat % 16 * 4 + c.toNat / 64)) (encSym (c.toNat % 64)) = some [a, b, c] := by
  have ha := a.toNat_lt; have hb := b.toNat_lt; have hc := c.toNat_lt
  simp only [Nat.reducePow] at ha hb hc
  unfold quad
  rw [decSym_encSym _ (by omega), decSym_encSym _ (by omega), decSym_encSym _ (by omega),
    decSym_encSym _ (by omega)]
  simp only [Option.bind_eq_bind, Option.bind_some]
  have e1 : a.toNat / 4 * 4 + (a.toNat % 4 * 16 + b.toNat / 16) / 16 = a.toNat := by omega
  have e2 : (a.toNat % 4 * 16 + b.toNat / 16) % 16 * 16 + (b.toNat % 16 * 4 + c.toNat / 64) / 4 = b.toNat := by omega
  have e3 : (b.toNat % 16 * 4 + c.toNat / 64) % 4 * 64 + c.toNat % 64 = c.toNat := by omega
  rw [e1, e2, e3]
  simp

theorem tail2_enc (a : UInt8) :
    tail2 (encSym (a.toNat / 4)) (encSym (a.toNat % 4 * 16)) = some [a] := by
  have ha := a.toNat_lt
  simp only [Nat.reducePow] at ha
  unfold tail2
  rw [decSym_encSym _ (by omega), decSym_encSym _ (by omega)]
  simp only [Option.bind_eq_bind, Option.bind_some]
  have e0 : a.toNat % 4 * 16 % 16 = 0 := by omega
  have e1 : a.toNat / 4 * 4 + a.toNat % 4 * 16 / 16 = a.toNat := by omega
  rw [if_pos e0, e1]
  simp

theorem tail3_enc (a b : UInt8) :
    tail3 (encSym (a.toNat / 4)) (encSym (a.toNat % 4 * 16 + b.toNat / 16))
      (encSym (b.toNat % 16 * 4)) = some [a, b] := by
  have ha := a.toNat_lt; have hb := b.toNat_lt
  simp only [Nat.reducePow] at ha hb
  unfold tail3
  rw [decSym_encSym _ (by omega), decSym_encSym _ (by omega), decSym_encSym _ (by omega)]
  simp only [Option.bind_eq_bind, Option.bind_some]
  have e0 : b.toNat % 16 * 4 % 4 = 0 := by omega
  have e1 : a.toNat / 4 * 4 + (a.toNat % 4 * 16 + b.toNat / 16) / 16 = a.toNat := by omega
  have e2 : (a.toNat % 4 * 16 + b.toNat / 16) % 16 * 16 + b.toNat % 16 * 4 / 4 = b.toNat := by omega
  rw [if_pos e0, e1, e2]
  simp

/-- Round trip: decoding the encoding of any byte string gives the byte string back. -/
theorem decode_encode (bs : List UInt8) : decode (encode bs) = some bs := by
  fun_induction encode bs with
  | case1 => rfl
  | case2 a =>
    simp only [decode]
    simp [tail2_enc]
  | case3 a b =>
    have hb := b.toNat_lt
    simp only [Nat.reducePow] at hb
    simp only [decode]
    have h3 : encSym (b.toNat % 16 * 4) ≠ pad := encSym_ne_pad _ (by omega)
    simp [h3, tail3_enc]
  | case4 a b c rest ih =>
    have ha := a.toNat_lt; have hb := b.toNat_lt; have hc := c.toNat_lt
    simp only [Nat.reducePow] at ha hb hc
    simp only [decode]
    have h3 : encSym (b.toNat % 16 * 4 + c.toNat / 64) ≠ pad := encSym_ne_pad _ (by omega)
    have h4 : encSym (c.toNat % 64) ≠ pad := encSym_ne_pad _ (by omega)
    simp [h3, h4, quad_enc, ih]

theorem encode_length (bs : List UInt8) : (encode bs).length = 4 * ((bs.length + 2) / 3) := by
  fun_induction encode bs with
  | case1 => rfl
  | case2 a => simp
  | case3 a b => simp
  | case4 a b c rest ih => simp only [List.length_cons, ih]; omega

/-- The characters the encoder can emit: the 64 symbols and `=`. -/
def isAlphabet (c : UInt8) : Bool := (decSym c).isSome || c == pad

theorem encSym_isAlphabet : ∀ s, s < 64 → isAlphabet (encSym s) = true := by decide

theorem encode_alphabet (bs : List UInt8) : ∀ c ∈ encode bs, isAlphabet c = true := by
  fun_induction encode bs with
  | case1 => simp
  | case2 a =>
    have ha := a.toNat_lt
    simp only [Nat.reducePow] at ha
    intro c hc
    simp only [List.mem_cons, List.not_mem_nil, or_false] at hc
    rcases hc with rfl | rfl | rfl | rfl
    · exact encSym_isAlphabet _ (by omega)
    · exact encSym_isAlphabet _ (by omega)
    · decide
    · decide
  | case3 a b =>
    have ha := a.toNat_lt; have hb := b.toNat_lt
    simp only [Nat.reducePow] at ha hb
    intro c hc
    simp only [List.mem_cons, List.not_mem_nil, or_false] at hc
    rcases hc with rfl | rfl | rfl | rfl
    · exact encSym_isAlphabet _ (by omega)
    · exact encSym_isAlphabet _ (by omega)
    · exact encSym_isAlphabet _ (by omega)
    · decide
  | case4 a b c rest ih =>
    have ha := a.toNat_lt; have hb := b.toNat_lt; have hc := c.toNat_lt
    simp only [Nat.reducePow] at ha hb hc
    intro x hx
    simp only [List.mem_cons] at hx
    rcases hx with rfl | rfl | rfl | rfl | hx
    · exact encSym_isAlphabet _ (by omega)
    · exact encSym_isAlphabet _ (by omega)
    · exact encSym_isAlphabet _ (by omega)
    · exact encSym_isAlphabet _ (by omega)
    · exact ih x hx

set_option maxRecDepth 10000 in
/-- No alphabet character is one that JSON escapes, and all are 7-bit ASCII. -/
theorem alphabet_json_safe : ∀ c : UInt8, isAlphabet c = true →
    Json.needsEscape c = false ∧ c.toNat < 128 := by
  apply forall_uint8; decide


theorem decSym_ascii (c : UInt8) (n : Nat) (h : decSym c = some n) : c.toNat < 128 := by
  unfold decSym at h
  simp only at h
  split at h
  · omega
  · split at h
    · omega
    · split at h
      · omega
      · split at h
        · omega
        · split at h
          · omega
          · cases h

theorem pad_ascii : pad.toNat < 128 := by decide

theorem tail2_ascii (a b : UInt8) (r : List UInt8) (h : tail2 a b = some r) : a.toNat < 128 ∧ b.toNat < 128 := by
  unfold tail2 at h
  cases ha : decSym a with
  | none => simp [ha] at h
  | some w =>
    cases hb : decSym b with
    | none => simp [ha, hb] at h
    | some x => exact ⟨decSym_ascii a w ha, decSym_ascii b x hb⟩

theorem tail3_ascii (a b c : UInt8) (r : List UInt8) (h : tail3 a b c = some r) :
    a.toNat < 128 ∧ b.toNat < 128 ∧ c.toNat < 128 := by
  unfold tail3 at h
  cases ha : decSym a with
  | none => simp [ha] at h
  | some w =>
    cases hb : decSym b with
    | none => simp [ha, hb] at h
    | some x =>
      cases hc : decSym c with
      | none => simp [ha, hb, hc] at h
      | some y => exact ⟨decSym_ascii a w ha, decSym_ascii b x hb, decSym_ascii c y hc⟩

theorem quad_ascii (a b c d : UInt8) (r : List UInt8) (h : quad a b c d = some r) :
    a.toNat < 128 ∧ b.toNat < 128 ∧ c.toNat < 128 ∧ d.toNat < 128 := by
  unfold quad at h
  cases ha : decSym a with
  | none => simp [ha] at h
  | some w =>
    cases hb : decSym b with
    | none => simp [ha, hb] at h
    | some x =>
      cases hc : decSym c with
      | none => simp [ha, hb, hc] at h
      | some y =>
        cases hd : decSym d with
        | none => simp [ha, hb, hc, hd] at h
        | some z => exact ⟨decSym_ascii a w ha, decSym_ascii b x hb, decSym_ascii c y hc, decSym_ascii d z hd⟩

/-- Whatever `decode` accepts is 7-bit ASCII (hence valid UTF-8): bincode's UTF-8 check on the key
string can never reject something the base64 decoder would have accepted. -/
theorem decode_ascii (s : List UInt8) : ∀ r, decode s = some r → ∀ c ∈ s, c.toNat < 128 := by
  fun_induction decode s with
  | case1 => simp
  | case2 => simp
  | case3 a b =>
    intro r h c hc
    have := tail2_ascii a b r h
    simp only [List.mem_cons, List.not_mem_nil, or_false] at hc
    rcases hc with rfl | rfl <;> simp [this]
  | case4 a b =>
    intro r h x hx
    have := tail2_ascii a b r h
    simp only [List.mem_cons, List.not_mem_nil, or_false] at hx
    rcases hx with rfl | rfl | rfl
    · exact this.1
    · exact this.2
    · exact pad_ascii
  | case5 a b c h1 =>
    intro r h x hx
    have := tail3_ascii a b c r h
    simp only [List.mem_cons, List.not_mem_nil, or_false] at hx
    rcases hx with rfl | rfl | rfl <;> simp [this]
  | case6 => simp
  | case7 a b rest h1 h2 =>
    intro r h x hx
    have := tail2_ascii a b r h
    have hr : rest = [] := by simpa using h1
    subst hr
    simp only [List.mem_cons, List.not_mem_nil, or_false] at hx
    rcases hx with rfl | rfl | rfl | rfl
    · exact this.1
    · exact this.2
    · exact pad_ascii
    · exact pad_ascii
  | case8 => simp
  | case9 a b c d rest h1 h2 h3 =>
    intro r h x hx
    have := tail3_ascii a b c r h
    have hr : rest = [] := by simpa using h2
    subst hr
    have hd : d = pad := by rcases h1 with h | h; exact absurd h h3; exact h
    simp only [List.mem_cons, List.not_mem_nil, or_false] at hx
    rcases hx with rfl | rfl | rfl | rfl
    · exact this.1
    · exact this.2.1
    · exact this.2.2
    · rw [hd]; exact pad_ascii
  | case10 a b c d rest h1 ih =>
    intro r h x hx
    cases hq : quad a b c d with
    | none => simp [hq] at h
    | some q =>
      cases hd : decode rest with
      | none => simp [hq, hd] at h
      | some r' =>
        have := quad_ascii a b c d q hq
        simp only [List.mem_cons] at hx
        rcases hx with rfl | rfl | rfl | rfl | hx
        · exact this.1
        · exact this.2.1
        · exact this.2.2.1
        · exact this.2.2.2
        · exact ih r' hd x hx
end HS.Wire.Base64

namespace HS.Wire

theorem decodeKey_encodeKey (c : Bool) (n : Nat) (k : List UInt8) (h : k.length = n) :
    decodeKey c n (encodeKey k) = .ok k := by
  unfold decodeKey encodeKey
  rw [Base64.decode_encode]
  subst h
  simp

namespace Json

set_option maxRecDepth 10000 in
theorem escape_id (s : List UInt8) (h : ∀ c ∈ s, needsEscape c = false) :
    (s.map escapeByte).flatten = s := by
  induction s with
  | nil => rfl
  | cons c s ih =>
    have hc := h c (by simp)
    have : escapeByte c = [c] :=
      forall_uint8 (fun c => needsEscape c = false → escapeByte c = [c]) (by decide) c hc
    simp only [List.map_cons, List.flatten_cons, this]
    rw [ih (fun x hx => h x (by simp [hx]))]
    rfl

set_option maxRecDepth 10000 in
theorem scan_safe (s rest : List UInt8) (h : ∀ c ∈ s, needsEscape c = false) :
    scan (s ++ quote :: rest) = some (s, rest) := by
  induction s with
  | nil => simp [scan]
  | cons c s ih =>
    have hc := h c (by simp)
    have h1 : c ≠ quote ∧ ¬ (c = backslash ∨ c.toNat < 32) :=
      forall_uint8 (fun c => needsEscape c = false → c ≠ quote ∧ ¬ (c = backslash ∨ c.toNat < 32))
        (by decide) c hc
    simp only [List.cons_append, scan, if_neg h1.1, if_neg h1.2]
    rw [ih (fun x hx => h x (by simp [hx]))]

/-- Writing a string that needs no escaping and reading it back is the identity. -/
theorem readStr_writeStr (s rest : List UInt8) (h : ∀ c ∈ s, needsEscape c = false) :
    readStr (writeStr s ++ rest) = some (s, rest) := by
  unfold writeStr
  rw [escape_id s h]
  simp only [List.cons_append, readStr, if_pos, List.append_assoc]
  exact scan_safe s rest h

end Json
end HS.Wire
