import HotstuffModel.Model.ProposerWait
namespace HS.PW

/-- The loop leaves through the `break` exactly when some completion arrives and the node's stake plus
the completed waiters' stakes reach the quorum. -/
theorem wait_breaks_iff (q t : Nat) (ss : List Nat) :
    (wait q t ss).2 = true ↔ ss ≠ [] ∧ q ≤ t + ss.sum := by
  induction ss generalizing t with
  | nil => simp [wait]
  | cons s rest ih =>
    unfold wait
    by_cases h : Gen.proposerQuorum (t + s) q
    · have h' : q ≤ t + s := h
      simp only [h, if_true, ne_eq, reduceCtorEq, not_false_eq_true, List.sum_cons, true_and, true_iff]
      omega
    · have h' : ¬ q ≤ t + s := h
      simp only [h, if_false, ne_eq, reduceCtorEq, not_false_eq_true, List.sum_cons, true_and]
      rw [ih (t + s)]
      constructor
      · rintro ⟨_, h2⟩; omega
      · intro h2
        refine ⟨?_, by omega⟩
        intro hr
        subst hr
        simp at h2
        omega

/-- It never consumes more completions than there are, and stops at the first one that reaches the quorum. -/
theorem wait_consumes_le (q t : Nat) (ss : List Nat) : (wait q t ss).1 ≤ ss.length := by
  induction ss generalizing t with
  | nil => simp [wait]
  | cons s rest ih =>
    unfold wait
    split
    · simp
    · have := ih (t + s)
      simp only [List.length_cons]
      omega

theorem wait_stops_at_first_crossing (q t : Nat) (ss : List Nat) (h : (wait q t ss).2 = true) :
    q ≤ t + (ss.take (wait q t ss).1).sum ∧
    ∀ j, 0 < j → j < (wait q t ss).1 → ¬ q ≤ t + (ss.take j).sum := by
  induction ss generalizing t with
  | nil => simp [wait] at h
  | cons s rest ih =>
    unfold wait at h ⊢
    by_cases hq : Gen.proposerQuorum (t + s) q
    · have h' : q ≤ t + s := hq
      simp only [hq, if_true]
      refine ⟨by simp; omega, ?_⟩
      intro j h1 h2
      omega
    · have h' : ¬ q ≤ t + s := hq
      simp only [hq, if_false] at h ⊢
      obtain ⟨i1, i2⟩ := ih (t + s) h
      refine ⟨by simp only [List.take_succ_cons, List.sum_cons]; omega, ?_⟩
      intro j h1 h2
      cases j with
      | zero => omega
      | succ j' =>
        simp only [List.take_succ_cons, List.sum_cons]
        cases j' with
        | zero => simp; omega
        | succ j'' =>
          have := i2 (j'' + 1) (by omega) (by omega)
          omega

end HS.PW
