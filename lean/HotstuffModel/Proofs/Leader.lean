import HotstuffModel.Model.Leader
/-
`get_leader`: sorting is a permutation into the unique sorted order, so the leader depends on the
key SET only; round-robin facts.  `Gen.leaderIndex` comes from the source (translator).
-/
namespace HS

theorem insertSorted_perm (a : Nat) (l : List Nat) : (insertSorted a l).Perm (a :: l) := by
  induction l with
  | nil => exact List.Perm.refl _
  | cons b l ih =>
    unfold insertSorted
    split
    · exact List.Perm.refl _
    · exact (List.Perm.cons b ih).trans (List.Perm.swap a b l)

theorem sortKeys_perm (l : List Nat) : (sortKeys l).Perm l := by
  induction l with
  | nil => exact List.Perm.refl _
  | cons a l ih => exact (insertSorted_perm a (sortKeys l)).trans (List.Perm.cons a ih)

theorem insertSorted_sorted (a : Nat) (l : List Nat) (h : l.Pairwise (· ≤ ·)) :
    (insertSorted a l).Pairwise (· ≤ ·) := by
  induction l with
  | nil => simp [insertSorted]
  | cons b l ih =>
    unfold insertSorted
    have hb := List.pairwise_cons.mp h
    split
    · rename_i hab
      refine List.pairwise_cons.mpr ⟨?_, h⟩
      intro x hx
      rcases List.mem_cons.mp hx with rfl | hx
      · exact hab
      · exact Nat.le_trans hab (hb.1 x hx)
    · rename_i hab
      refine List.pairwise_cons.mpr ⟨?_, ih hb.2⟩
      intro x hx
      have := (insertSorted_perm a l).subset hx
      rcases List.mem_cons.mp this with rfl | hx'
      · omega
      · exact hb.1 x hx'

theorem sortKeys_sorted (l : List Nat) : (sortKeys l).Pairwise (· ≤ ·) := by
  induction l with
  | nil => simp [sortKeys]
  | cons a l ih => exact insertSorted_sorted a _ ih

/-- The sorted key list depends only on the key multiset: any insertion order gives the same list. -/
theorem sortKeys_eq_of_perm {l1 l2 : List Nat} (h : l1.Perm l2) : sortKeys l1 = sortKeys l2 := by
  apply List.Perm.eq_of_pairwise (le := (· ≤ ·))
  · intro a b _ _ h1 h2; exact Nat.le_antisymm h1 h2
  · exact sortKeys_sorted l1
  · exact sortKeys_sorted l2
  · exact (sortKeys_perm l1).trans (h.trans (sortKeys_perm l2).symm)

theorem mem_sortKeys (l : List Nat) (x : Nat) : x ∈ sortKeys l ↔ x ∈ l := (sortKeys_perm l).mem_iff
theorem length_sortKeys (l : List Nat) : (sortKeys l).length = l.length := (sortKeys_perm l).length_eq

theorem leaderIndex_lt (r n : Nat) (h : 0 < n) : Gen.leaderIndex r n < n := by
  unfold Gen.leaderIndex; exact Nat.mod_lt _ h

/-- On a non-empty committee `get_leader` does not panic and returns a member. -/
theorem leader?_some (c : Committee) (h : c.keys ≠ []) (r : Nat) :
    ∃ k, c.leader? r = some k ∧ k ∈ c.keys := by
  unfold Committee.leader?
  have hn : 0 < c.keys.length := List.length_pos_iff.mpr h
  have hi : Gen.leaderIndex r c.keys.length < (sortKeys c.keys).length := by
    rw [length_sortKeys]; exact leaderIndex_lt r _ hn
  refine ⟨(sortKeys c.keys)[Gen.leaderIndex r c.keys.length], List.getElem?_eq_getElem hi, ?_⟩
  exact (mem_sortKeys _ _).mp (List.getElem_mem hi)

theorem leader_mem (c : Committee) (h : c.keys ≠ []) (r : Nat) : c.leader r ∈ c.keys := by
  obtain ⟨k, hk, hm⟩ := leader?_some c h r
  unfold Committee.leader; rw [hk]; exact hm

end HS

namespace HS

theorem mod_shift_exists (n m j : Nat) (hn : 0 < n) (hm : m < n) (hj : j < n) :
    ∃ i, i < n ∧ (m + i) % n = j := by
  by_cases h : m ≤ j
  · refine ⟨j - m, by omega, ?_⟩
    have : m + (j - m) = j := by omega
    rw [this]; exact Nat.mod_eq_of_lt hj
  · refine ⟨j + n - m, by omega, ?_⟩
    have : m + (j + n - m) = j + n := by omega
    rw [this, Nat.add_mod_right]; exact Nat.mod_eq_of_lt hj

theorem mod_shift_inj (n a x y : Nat) (hx : x < n) (hy : y < n)
    (h : (a + x) % n = (a + y) % n) : x = y := by
  have key : ∀ x y, y ≤ x → x < n → (a + x) % n = (a + y) % n → x = y := by
    intro x y hle hx h
    have h0 := Nat.sub_mod_eq_zero_of_mod_eq h
    have : a + x - (a + y) = x - y := by omega
    rw [this] at h0
    have : (x - y) % n = x - y := Nat.mod_eq_of_lt (by omega)
    omega
  rcases Nat.le_total y x with hle | hle
  · exact key x y hle hx h
  · exact (key y x hle hy h.symm).symm

theorem leaderIndex_eq (r n : Nat) : Gen.leaderIndex r n = r % n := by
  unfold Gen.leaderIndex; omega

/-- The leader of round `r` is the `(r mod n)`-th smallest key. -/
theorem leader_eq_getElem (c : Committee) (h : c.keys ≠ []) (r : Nat) :
    ∃ hi : r % c.keys.length < (sortKeys c.keys).length,
      c.leader r = (sortKeys c.keys)[r % c.keys.length] := by
  have hn : 0 < c.keys.length := List.length_pos_iff.mpr h
  have hi : r % c.keys.length < (sortKeys c.keys).length := by
    rw [length_sortKeys]; exact Nat.mod_lt _ hn
  refine ⟨hi, ?_⟩
  unfold Committee.leader Committee.leader?
  rw [leaderIndex_eq, List.getElem?_eq_getElem hi]
  rfl

theorem leader_periodic (c : Committee) (r : Nat) : c.leader (r + c.keys.length) = c.leader r := by
  unfold Committee.leader Committee.leader?
  rw [leaderIndex_eq, leaderIndex_eq, Nat.add_mod_right]

/-- All nodes derive the same leader from the committee alone: it depends only on the SET of keys,
not on the order in which the committee was built. -/
theorem leader_depends_only_on_key_set (c1 c2 : Committee) (h : c1.keys.Perm c2.keys) (r : Nat) :
    c1.leader r = c2.leader r := by
  unfold Committee.leader Committee.leader?
  rw [sortKeys_eq_of_perm h, h.length_eq]

/-- In any window of `n` consecutive rounds every authority leads exactly once. -/
theorem every_authority_leads_once (c : Committee) (hw : c.WF) (h : c.keys ≠ []) (r0 : Nat)
    (k : Nat) (hk : k ∈ c.keys) :
    ∃ i, i < c.keys.length ∧ c.leader (r0 + i) = k ∧
      ∀ j, j < c.keys.length → c.leader (r0 + j) = k → j = i := by
  have hn : 0 < c.keys.length := List.length_pos_iff.mpr h
  have hnd : (sortKeys c.keys).Nodup := (sortKeys_perm c.keys).nodup_iff.mpr hw
  have hks : k ∈ sortKeys c.keys := (mem_sortKeys _ _).mpr hk
  obtain ⟨j, hj, hjk⟩ := List.getElem_of_mem hks
  have hjn : j < c.keys.length := by rw [← length_sortKeys]; exact hj
  obtain ⟨i, hi, him⟩ := mod_shift_exists c.keys.length (r0 % c.keys.length) j hn (Nat.mod_lt _ hn) hjn
  have hmod : ∀ x, (r0 + x) % c.keys.length = (r0 % c.keys.length + x) % c.keys.length := by
    intro x; rw [Nat.add_mod, Nat.add_mod (r0 % c.keys.length) x, Nat.mod_mod]
  refine ⟨i, hi, ?_, ?_⟩
  · obtain ⟨hlt, heq⟩ := leader_eq_getElem c h (r0 + i)
    rw [heq]
    have : (r0 + i) % c.keys.length = j := by rw [hmod]; exact him
    simp only [this]; exact hjk
  · intro j' hj' hl
    obtain ⟨hlt, heq⟩ := leader_eq_getElem c h (r0 + j')
    rw [heq] at hl
    have hidx : (r0 + j') % c.keys.length = j := by
      exact (List.getElem_inj (h₀ := hlt) (h₁ := hj) hnd).mp (hl.trans hjk.symm)
    have : (r0 % c.keys.length + j') % c.keys.length = (r0 % c.keys.length + i) % c.keys.length := by
      rw [← hmod, hidx, him]
    exact mod_shift_inj _ _ _ _ hj' hi this

end HS
