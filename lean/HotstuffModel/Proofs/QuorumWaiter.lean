import HotstuffModel.Model.QuorumWaiter
import HotstuffModel.Proofs.Weight
/-
Helper lemmas for C12 (QuorumWaiter).
-/
namespace HS.QW
open HS.Q

def stakeSum (l : List H) : Nat := (l.map (·.stake)).sum

@[simp] theorem stakeSum_nil : stakeSum [] = 0 := rfl
@[simp] theorem stakeSum_cons (h : H) (l : List H) : stakeSum (h :: l) = h.stake + stakeSum l := by
  simp [stakeSum]

theorem doneStake_eq (hs : List H) : doneStake hs = stakeSum (hs.filter (·.done)) := rfl

/-- Handlers carry the committee's stake of their name. -/
def StakesOK (f : Nat → Nat) (hs : List H) : Prop := ∀ h ∈ hs, h.stake = f h.name

theorem stakeSum_weight (f : Nat → Nat) (l : List H) (h : StakesOK f l) :
    stakeSum l = weight f (l.map (·.name)) := by
  induction l with
  | nil => rfl
  | cons a l ih =>
    have ha := h a (by simp)
    have := ih (fun x hx => h x (by simp [hx]))
    simp [ha, this]

theorem crossing_some (q : Nat) (t : Nat) (l p : List H) (h : crossing q t l = some p) :
    q ≤ t + stakeSum p ∧ p.Sublist l := by
  induction l generalizing t p with
  | nil => simp [crossing] at h
  | cons a l ih =>
    simp only [crossing] at h
    split at h
    · cases h; simp; omega
    · cases hc : crossing q (t + a.stake) l with
      | none => simp [hc] at h
      | some p' =>
        simp [hc] at h; subst h
        have := ih (t + a.stake) p' hc
        refine ⟨?_, this.2.cons₂ a⟩
        rw [stakeSum_cons]; omega

theorem crossing_none (q : Nat) (t : Nat) (l : List H) (h : crossing q t l = none) :
    l = [] ∨ t + stakeSum l < q := by
  induction l generalizing t with
  | nil => left; rfl
  | cons a l ih =>
    right
    simp only [crossing] at h
    split at h
    · cases h
    · cases hc : crossing q (t + a.stake) l with
      | some p' => simp [hc] at h
      | none =>
        rcases ih (t + a.stake) hc with h1 | h1
        · subst h1; simp; omega
        · simp; omega

/-! ### `mark` -/

theorem mark_spec (i : Nat) (hs : List H) (x : H) (hs' : List H) (h : mark i hs = some (x, hs')) :
    x ∈ hs ∧ x.idx = i ∧ x.done = false ∧
    hs'.map (·.name) = hs.map (·.name) ∧
    doneStake hs' = doneStake hs + x.stake ∧
    (∀ y ∈ hs', y ∈ hs ∨ y = { x with done := true }) ∧
    (∀ f, StakesOK f hs → StakesOK f hs') := by
  induction hs generalizing hs' with
  | nil => simp [mark] at h
  | cons a t ih =>
    simp only [mark] at h
    split at h
    · rename_i hc
      cases h
      refine ⟨by simp, hc.1, hc.2, by simp, ?_, ?_, ?_⟩
      · simp [doneStake, List.filter_cons, hc.2]; omega
      · intro y hy
        simp only [List.mem_cons] at hy
        rcases hy with hy | hy
        · right; exact hy
        · left; simp [hy]
      · intro f hf y hy
        simp only [List.mem_cons] at hy
        rcases hy with hy | hy
        · subst hy; exact hf x (by simp)
        · exact hf y (by simp [hy])
    · cases hm : mark i t with
      | none => simp [hm] at h
      | some r =>
        obtain ⟨x', t'⟩ := r
        simp [hm] at h
        obtain ⟨h1, h2⟩ := h
        subst h1; subst h2
        obtain ⟨m1, m2, m3, m4, m5, m6, m7⟩ := ih t' hm
        refine ⟨by simp [m1], m2, m3, by simp [m4], ?_, ?_, ?_⟩
        · simp only [doneStake, List.filter_cons] at *
          by_cases hd : a.done = true <;> simp [hd] at * <;> omega
        · intro y hy
          simp only [List.mem_cons] at hy
          rcases hy with hy | hy
          · left; simp [hy]
          · rcases m6 y hy with h' | h'
            · left; simp [h']
            · right; exact h'
        · intro f hf y hy
          simp only [List.mem_cons] at hy
          rcases hy with hy | hy
          · subst hy; exact hf y (by simp)
          · exact m7 f (fun z hz => hf z (by simp [hz])) y hy

/-! ### The state invariant -/

/-- The message being served is consistent with the handler flags and still below the threshold
(or nothing has been counted yet — own stake alone may already be a quorum). -/
def CurOK (cfg : Cfg) (c : Cur) : Prop :=
  c.total = cfg.own + doneStake c.hs ∧ (c.total < cfg.q ∨ ackers c.hs = []) ∧
  c.hs.all (·.done) = false ∧ StakesOK cfg.stakeOf c.hs

def Inv (cfg : Cfg) (s : State) : Prop :=
  (∀ c, s.cur = some c → CurOK cfg c) ∧ (s.cur = none → s.queue = []) ∧
  (∀ b ∈ s.queue, StakesOK cfg.stakeOf b.hs)

/-- Ids of the batches the task still holds, oldest first. -/
def ids (s : State) : List Nat := (s.cur.map (·.id)).toList ++ s.queue.map (·.id)

/-- Every forward in `outs` is backed by a quorum. -/
def OutsOK (cfg : Cfg) (outs : List Out) : Prop :=
  ∀ id names, Out.forward id names ∈ outs → cfg.q ≤ cfg.own + weight cfg.stakeOf names

theorem ackers_nil_doneStake (hs : List H) (h : ackers hs = []) : doneStake hs = 0 := by
  unfold ackers at h
  have : hs.filter (·.done) = [] := by simpa using h
  simp [doneStake, this]

theorem serve_spec (cfg : Cfg) (b : B) (hb : StakesOK cfg.stakeOf b.hs) :
    OutsOK cfg (serve cfg.own cfg.q b).2 ∧
    (∀ c, (serve cfg.own cfg.q b).1 = some c → CurOK cfg c ∧ c.id = b.id ∧ c.hs = b.hs) ∧
    (serve cfg.own cfg.q b).2.map Out.id ++ ((serve cfg.own cfg.q b).1.map (·.id)).toList = [b.id] ∧
    (∀ id names, Out.forward id names ∈ (serve cfg.own cfg.q b).2 →
        id = b.id ∧ names.Sublist (ackers b.hs)) := by
  unfold serve
  cases hc : crossing cfg.q cfg.own (b.hs.filter (·.done)) with
  | some p =>
    have hp := crossing_some _ _ _ _ hc
    have hsub : p.Sublist b.hs := hp.2.trans List.filter_sublist
    have hps : StakesOK cfg.stakeOf p := fun x hx => hb x (hsub.subset hx)
    refine ⟨?_, by simp, by simp [Out.id], ?_⟩
    · intro id names hm
      simp at hm
      rw [hm.2, ← stakeSum_weight _ _ hps]; exact hp.1
    · intro id names hm
      simp at hm
      refine ⟨hm.1, ?_⟩
      rw [hm.2]; exact hp.2.map _
  | none =>
    simp only
    have hn := crossing_none _ _ _ hc
    by_cases hall : b.hs.all (·.done) = true
    · simp only [hall, if_true]
      refine ⟨?_, by simp, by simp [Out.id], ?_⟩
      · intro id names hm; simp at hm
      · intro id names hm; simp at hm
    · have hall' : b.hs.all (·.done) = false := by simpa using hall
      simp only [hall', Bool.false_eq_true, if_false]
      refine ⟨?_, ?_, by simp, ?_⟩
      · intro id names hm; simp at hm
      · intro c hcs
        simp at hcs; subst hcs
        refine ⟨⟨rfl, ?_, hall', hb⟩, rfl, rfl⟩
        rcases hn with h1 | h1
        · right; simp [ackers, h1]
        · left; simpa [doneStake_eq] using h1
      · intro id names hm; simp at hm

theorem advance_spec (cfg : Cfg) (bs : List B) (hb : ∀ b ∈ bs, StakesOK cfg.stakeOf b.hs) :
    OutsOK cfg (advance cfg.own cfg.q bs).2.2 ∧
    (∀ c, (advance cfg.own cfg.q bs).1 = some c → CurOK cfg c ∧ ∃ b ∈ bs, c.id = b.id ∧ c.hs = b.hs) ∧
    ((advance cfg.own cfg.q bs).1 = none → (advance cfg.own cfg.q bs).2.1 = []) ∧
    (∀ b ∈ (advance cfg.own cfg.q bs).2.1, b ∈ bs) ∧
    (advance cfg.own cfg.q bs).2.2.map Out.id ++ (((advance cfg.own cfg.q bs).1.map (·.id)).toList
        ++ (advance cfg.own cfg.q bs).2.1.map (·.id)) = bs.map (·.id) ∧
    (∀ id names, Out.forward id names ∈ (advance cfg.own cfg.q bs).2.2 →
        ∃ b ∈ bs, id = b.id ∧ names.Sublist (ackers b.hs)) := by
  induction bs with
  | nil => simp [advance, OutsOK]
  | cons b bs ih =>
    have hs := serve_spec cfg b (hb b (by simp))
    have ih' := ih (fun x hx => hb x (by simp [hx]))
    simp only [advance]
    cases hsv : serve cfg.own cfg.q b with
    | mk c? outs =>
      rw [hsv] at hs
      cases c? with
      | some c =>
        simp only
        obtain ⟨h1, h2, h3, h4⟩ := hs
        refine ⟨h1, ?_, by simp, ?_, ?_, ?_⟩
        · intro c' hc'
          simp at hc'; subst hc'
          have := h2 c rfl
          exact ⟨this.1, b, by simp, this.2.1, this.2.2⟩
        · intro x hx; simp [hx]
        · simp at h3 ⊢
          have : outs.map Out.id = [] ∧ c.id = b.id := by
            cases ho : outs.map Out.id with
            | nil => simp [ho] at h3; exact ⟨rfl, h3⟩
            | cons a l => simp [ho] at h3
          simp [this.1, this.2]
        · intro id names hm
          obtain ⟨e1, e2⟩ := h4 id names hm
          exact ⟨b, by simp, e1, e2⟩
      | none =>
        simp only
        obtain ⟨h1, _, h3, h4⟩ := hs
        obtain ⟨i1, i2, i3, i4, i5, i6⟩ := ih'
        refine ⟨?_, ?_, i3, ?_, ?_, ?_⟩
        · intro id names hm
          rcases List.mem_append.mp hm with hm | hm
          · exact h1 id names hm
          · exact i1 id names hm
        · intro c hc
          obtain ⟨a1, b', a2, a3⟩ := i2 c hc
          exact ⟨a1, b', by simp [a2], a3⟩
        · intro x hx; simp [i4 x hx]
        · have h3' : outs.map Out.id = [b.id] := by simpa using h3
          simp only [List.map_append, List.append_assoc, List.map_cons]
          rw [i5]; simp [h3']
        · intro id names hm
          rcases List.mem_append.mp hm with hm | hm
          · obtain ⟨e1, e2⟩ := h4 id names hm
            exact ⟨b, by simp, e1, e2⟩
          · obtain ⟨b', a2, a3⟩ := i6 id names hm
            exact ⟨b', by simp [a2], a3⟩

theorem mkHandlers_stakes (f : Nat → Nat) (names : List Nat) : StakesOK f (mkHandlers f names) := by
  intro h hh
  simp only [mkHandlers, List.mem_map] at hh
  obtain ⟨p, _, rfl⟩ := hh
  rfl

theorem markQueue_spec (cfg : Cfg) (id i : Nat) (bs : List B)
    (hb : ∀ b ∈ bs, StakesOK cfg.stakeOf b.hs) :
    (markQueue id i bs).map (·.id) = bs.map (·.id) ∧
    (∀ b ∈ markQueue id i bs, StakesOK cfg.stakeOf b.hs) ∧
    (bs = [] → markQueue id i bs = []) := by
  induction bs with
  | nil => simp [markQueue]
  | cons b bs ih =>
    have ih' := ih (fun x hx => hb x (by simp [hx]))
    simp only [markQueue]
    split
    · cases hm : mark i b.hs with
      | none => exact ⟨rfl, hb, by simp⟩
      | some r =>
        obtain ⟨x, hs'⟩ := r
        simp only
        refine ⟨by simp, ?_, by simp⟩
        intro y hy
        simp only [List.mem_cons] at hy
        rcases hy with hy | hy
        · subst hy
          exact (mark_spec i b.hs x hs' hm).2.2.2.2.2.2 _ (hb b (by simp))
        · exact hb y (by simp [hy])
    · refine ⟨by simp [ih'.1], ?_, by simp⟩
      intro y hy
      simp only [List.mem_cons] at hy
      rcases hy with hy | hy
      · subst hy; exact hb y (by simp)
      · exact ih'.2.1 y hy


theorem ackers_weight (f : Nat → Nat) (hs : List H) (h : StakesOK f hs) :
    doneStake hs = weight f (ackers hs) := by
  rw [doneStake_eq, ackers]
  exact stakeSum_weight f _ (fun x hx => h x (List.mem_filter.mp hx).1)

theorem inv_init (cfg : Cfg) : Inv cfg init := by
  refine ⟨?_, ?_, ?_⟩ <;> simp [init]

theorem step_spec (cfg : Cfg) (s : State) (e : Ev) (h : Inv cfg s) :
    Inv cfg (step cfg s e).1 ∧ OutsOK cfg (step cfg s e).2 ∧
    (step cfg s e).2.map Out.id ++ ids (step cfg s e).1 = ids s ++ arrivals [e] := by
  obtain ⟨h1, h2, h3⟩ := h
  cases e with
  | batch id names =>
    have hbs : StakesOK cfg.stakeOf (mkHandlers cfg.stakeOf names) := mkHandlers_stakes _ _
    cases hc : s.cur with
    | some c =>
      simp only [step, hc]
      refine ⟨⟨?_, by simp, ?_⟩, ?_, ?_⟩
      · intro c' hc'; exact h1 c' (by rw [hc]; exact hc')
      · intro b hb
        rcases List.mem_append.mp hb with hb | hb
        · exact h3 b hb
        · simp at hb; subst hb; exact hbs
      · intro id' names' hm; simp at hm
      · simp [ids, hc, arrivals]
    | none =>
      have hq := h2 hc
      have hbs' : ∀ b ∈ s.queue ++ [(⟨id, mkHandlers cfg.stakeOf names⟩ : B)], StakesOK cfg.stakeOf b.hs := by
        intro b hb
        rcases List.mem_append.mp hb with hb | hb
        · exact h3 b hb
        · simp at hb; subst hb; exact hbs
      obtain ⟨a1, a2, a3, a4, a5, _⟩ := advance_spec cfg _ hbs'
      simp only [step, hc]
      refine ⟨⟨?_, a3, ?_⟩, a1, ?_⟩
      · intro c hc'; exact (a2 c hc').1
      · intro b hb; exact hbs' b (a4 b hb)
      · simp only [ids]
        rw [a5]; simp [hc, hq, arrivals]
  | complete id i a =>
    cases hc : s.cur with
    | none =>
      have hq := h2 hc
      simp only [step, hc]
      refine ⟨⟨by simp, ?_, ?_⟩, ?_, ?_⟩
      · intro _; simp [hq, markQueue]
      · simp [hq, markQueue]
      · intro id' names' hm; simp at hm
      · simp [ids, hq, markQueue, arrivals, hc]
    | some c =>
      obtain ⟨c1, c2, c3, c4⟩ := h1 c hc
      simp only [step, hc]
      by_cases hid : c.id = id
      · simp only [hid, if_true]
        cases hm : mark i c.hs with
        | none =>
          simp only
          refine ⟨⟨?_, h2, h3⟩, ?_, ?_⟩
          · intro c' hc'; rw [hc] at hc'; cases hc'; exact ⟨c1, c2, c3, c4⟩
          · intro id' names' hm'; simp at hm'
          · simp [arrivals]
        | some r =>
          obtain ⟨x, hs'⟩ := r
          obtain ⟨m1, m2, m3, m4, m5, m6, m7⟩ := mark_spec i c.hs x hs' hm
          have hst' : StakesOK cfg.stakeOf hs' := m7 _ c4
          obtain ⟨a1, a2, a3, a4, a5, _⟩ := advance_spec cfg s.queue h3
          simp only
          by_cases hq : cfg.q ≤ c.total + x.stake
          · simp only [hq, if_true]
            refine ⟨⟨?_, a3, ?_⟩, ?_, ?_⟩
            · intro c' hc'; exact (a2 c' hc').1
            · intro b hb; exact h3 b (a4 b hb)
            · intro id' names' hm'
              simp only [List.mem_cons] at hm'
              rcases hm' with hm' | hm'
              · cases hm'
                rw [← ackers_weight _ _ hst', m5]; omega
              · exact a1 id' names' hm'
            · simp only [ids, List.map_cons, Out.id, List.cons_append] at *
              rw [a5]; simp [hc, hid, arrivals]
          · simp only [hq, if_false]
            by_cases hall : hs'.all (·.done) = true
            · simp only [hall, if_true]
              refine ⟨⟨?_, a3, ?_⟩, ?_, ?_⟩
              · intro c' hc'; exact (a2 c' hc').1
              · intro b hb; exact h3 b (a4 b hb)
              · intro id' names' hm'
                simp only [List.mem_cons] at hm'
                rcases hm' with hm' | hm'
                · cases hm'
                · exact a1 id' names' hm'
              · simp only [ids, List.map_cons, Out.id, List.cons_append] at *
                rw [a5]; simp [hc, hid, arrivals]
            · have hall' : hs'.all (·.done) = false := by simpa using hall
              simp only [hall', Bool.false_eq_true, if_false]
              refine ⟨⟨?_, by simp, h3⟩, ?_, ?_⟩
              · intro c' hc'
                simp at hc'; subst hc'
                exact ⟨by simp only; omega, Or.inl (by simp only; omega), hall', hst'⟩
              · intro id' names' hm'; simp at hm'
              · simp [ids, hc, hid, arrivals]
      · simp only [hid, if_false]
        obtain ⟨q1, q2, q3⟩ := markQueue_spec cfg id i s.queue h3
        refine ⟨⟨?_, by simp, q2⟩, ?_, ?_⟩
        · intro c' hc'; simp at hc'; subst hc'; exact ⟨c1, c2, c3, c4⟩
        · intro id' names' hm'; simp at hm'
        · simp [ids, hc, q1, arrivals]

theorem inv_run (cfg : Cfg) (s : State) (es : List Ev) (h : Inv cfg s) : Inv cfg (run cfg s es) := by
  induction es generalizing s with
  | nil => exact h
  | cons e es ih => exact ih _ (step_spec cfg s e h).1

theorem outputs_cons (cfg : Cfg) (s : State) (e : Ev) (es : List Ev) :
    outputs cfg s (e :: es) = (step cfg s e).2 ++ outputs cfg (step cfg s e).1 es := by
  simp [outputs, trace]

theorem arrivals_cons (e : Ev) (es : List Ev) : arrivals (e :: es) = arrivals [e] ++ arrivals es := by
  cases e <;> simp [arrivals]

theorem outputs_ok (cfg : Cfg) (s : State) (es : List Ev) (h : Inv cfg s) :
    OutsOK cfg (outputs cfg s es) := by
  induction es generalizing s with
  | nil => intro id names hm; simp [outputs, trace] at hm
  | cons e es ih =>
    have hs := step_spec cfg s e h
    intro id names hm
    rw [outputs_cons] at hm
    rcases List.mem_append.mp hm with hm | hm
    · exact hs.2.1 id names hm
    · exact ih _ hs.1 id names hm

/-- Finished batches, then the one being served, then the queue = arrival order. -/
theorem fifo_run (cfg : Cfg) (s : State) (es : List Ev) (h : Inv cfg s) :
    (outputs cfg s es).map Out.id ++ ids (run cfg s es) = ids s ++ arrivals es := by
  induction es generalizing s with
  | nil => simp [outputs, trace, run, arrivals]
  | cons e es ih =>
    have hs := step_spec cfg s e h
    rw [outputs_cons, arrivals_cons, List.map_append, List.append_assoc, run, ih _ hs.1,
      ← List.append_assoc, hs.2.2, List.append_assoc]


/-! ### Properties of the batches held by the task, carried through every step -/

/-- `P id hs` holds of the message being served and of every queued message. -/
def BatchesSat (P : Nat → List H → Prop) (s : State) : Prop :=
  (∀ c, s.cur = some c → P c.id c.hs) ∧ (∀ b ∈ s.queue, P b.id b.hs)

theorem markQueue_sat (P P' : Nat → List H → Prop) (id i : Nat) (bs : List B)
    (hmono : ∀ id hs, P id hs → P' id hs)
    (hmark : ∀ hs x hs', P id hs → mark i hs = some (x, hs') → P' id hs')
    (hb : ∀ b ∈ bs, P b.id b.hs) : ∀ b ∈ markQueue id i bs, P' b.id b.hs := by
  induction bs with
  | nil => simp [markQueue]
  | cons b bs ih =>
    have ih' := ih (fun x hx => hb x (by simp [hx]))
    simp only [markQueue]
    split
    · rename_i hid
      cases hm : mark i b.hs with
      | none =>
        intro y hy; exact hmono _ _ (hb y hy)
      | some r =>
        obtain ⟨x, hs'⟩ := r
        intro y hy
        simp only [List.mem_cons] at hy
        rcases hy with hy | hy
        · subst hy
          simp only
          rw [hid]
          exact hmark b.hs x hs' (hid ▸ hb b (by simp)) hm
        · exact hmono _ _ (hb y (by simp [hy]))
    · intro y hy
      simp only [List.mem_cons] at hy
      rcases hy with hy | hy
      · subst hy; exact hmono _ _ (hb y (by simp))
      · exact ih' y hy

theorem step_batches (cfg : Cfg) (s : State) (e : Ev) (P P' : Nat → List H → Prop)
    (hinv : Inv cfg s)
    (hmono : ∀ id hs, P id hs → P' id hs)
    (hnew : ∀ id names, e = .batch id names → P' id (mkHandlers cfg.stakeOf names))
    (hmark : ∀ id i a hs x hs', e = .complete id i a → P id hs → mark i hs = some (x, hs') → P' id hs')
    (h : BatchesSat P s) :
    BatchesSat P' (step cfg s e).1 ∧
    ∀ id names, Out.forward id names ∈ (step cfg s e).2 → ∃ hs, P' id hs ∧ names.Sublist (ackers hs) := by
  obtain ⟨h1, h2, h3⟩ := hinv
  obtain ⟨p1, p2⟩ := h
  cases e with
  | batch id names =>
    have hn := hnew id names rfl
    cases hc : s.cur with
    | some c =>
      simp only [step, hc]
      refine ⟨⟨?_, ?_⟩, ?_⟩
      · intro c' hc'; simp at hc'; subst hc'; exact hmono _ _ (p1 c hc)
      · intro b hb
        rcases List.mem_append.mp hb with hb | hb
        · exact hmono _ _ (p2 b hb)
        · simp at hb; subst hb; exact hn
      · intro id' names' hm; simp at hm
    | none =>
      have hbs' : ∀ b ∈ s.queue ++ [(⟨id, mkHandlers cfg.stakeOf names⟩ : B)], StakesOK cfg.stakeOf b.hs := by
        intro b hb
        rcases List.mem_append.mp hb with hb | hb
        · exact h3 b hb
        · simp at hb; subst hb; exact mkHandlers_stakes _ _
      have hP : ∀ b ∈ s.queue ++ [(⟨id, mkHandlers cfg.stakeOf names⟩ : B)], P' b.id b.hs := by
        intro b hb
        rcases List.mem_append.mp hb with hb | hb
        · exact hmono _ _ (p2 b hb)
        · simp at hb; subst hb; exact hn
      obtain ⟨_, a2, _, a4, _, a6⟩ := advance_spec cfg _ hbs'
      simp only [step, hc]
      refine ⟨⟨?_, ?_⟩, ?_⟩
      · intro c hc'
        obtain ⟨_, b, hb, e1, e2⟩ := a2 c hc'
        rw [e1, e2]; exact hP b hb
      · intro b hb; exact hP b (a4 b hb)
      · intro id' names' hm
        obtain ⟨b, hb, e1, e2⟩ := a6 id' names' hm
        exact ⟨b.hs, e1 ▸ hP b hb, e2⟩
  | complete id i a =>
    have hmq : ∀ b ∈ markQueue id i s.queue, P' b.id b.hs :=
      markQueue_sat P P' id i s.queue hmono (fun hs x hs' => hmark id i a hs x hs' rfl) p2
    cases hc : s.cur with
    | none =>
      simp only [step, hc]
      refine ⟨⟨by simp, hmq⟩, ?_⟩
      intro id' names' hm; simp at hm
    | some c =>
      simp only [step, hc]
      by_cases hid : c.id = id
      · simp only [hid, if_true]
        cases hm : mark i c.hs with
        | none =>
          simp only
          refine ⟨⟨?_, fun b hb => hmono _ _ (p2 b hb)⟩, ?_⟩
          · intro c' hc'; rw [hc] at hc'; cases hc'; exact hmono _ _ (p1 c hc)
          · intro id' names' hm'; simp at hm'
        | some r =>
          obtain ⟨x, hs'⟩ := r
          have hP' : P' id hs' := hmark id i a c.hs x hs' rfl (hid ▸ p1 c hc) hm
          have hPq : ∀ b ∈ s.queue, P' b.id b.hs := fun b hb => hmono _ _ (p2 b hb)
          obtain ⟨_, a2, _, a4, _, a6⟩ := advance_spec cfg s.queue h3
          have hadv : BatchesSat P' ⟨(advance cfg.own cfg.q s.queue).1, (advance cfg.own cfg.q s.queue).2.1⟩ := by
            refine ⟨?_, fun b hb => hPq b (a4 b hb)⟩
            intro c' hc'
            obtain ⟨_, b, hb, e1, e2⟩ := a2 c' hc'
            rw [e1, e2]; exact hPq b hb
          have hfw : ∀ id' names', Out.forward id' names' ∈ (advance cfg.own cfg.q s.queue).2.2 →
              ∃ hs, P' id' hs ∧ names'.Sublist (ackers hs) := by
            intro id' names' hm'
            obtain ⟨b, hb, e1, e2⟩ := a6 id' names' hm'
            exact ⟨b.hs, e1 ▸ hPq b hb, e2⟩
          simp only
          by_cases hq : cfg.q ≤ c.total + x.stake
          · simp only [hq, if_true]
            refine ⟨hadv, ?_⟩
            intro id' names' hm'
            simp only [List.mem_cons] at hm'
            rcases hm' with hm' | hm'
            · cases hm'; exact ⟨hs', hP', List.Sublist.refl _⟩
            · exact hfw id' names' hm'
          · simp only [hq, if_false]
            by_cases hall : hs'.all (·.done) = true
            · simp only [hall, if_true]
              refine ⟨hadv, ?_⟩
              intro id' names' hm'
              simp only [List.mem_cons] at hm'
              rcases hm' with hm' | hm'
              · cases hm'
              · exact hfw id' names' hm'
            · have hall' : hs'.all (·.done) = false := by simpa using hall
              simp only [hall', Bool.false_eq_true, if_false]
              refine ⟨⟨?_, hPq⟩, ?_⟩
              · intro c' hc'; simp at hc'; subst hc'; exact hP'
              · intro id' names' hm'; simp at hm'
      · simp only [hid, if_false]
        refine ⟨⟨?_, hmq⟩, ?_⟩
        · intro c' hc'; simp at hc'; subst hc'; exact hmono _ _ (p1 c hc)
        · intro id' names' hm'; simp at hm'

/-! ### Instance 1: a predicate on the handler-name list of each batch event -/

theorem mkHandlers_names (f : Nat → Nat) (names : List Nat) :
    (mkHandlers f names).map (·.name) = names := by
  simp only [mkHandlers, List.map_map]
  have : ((fun x : H => x.name) ∘ fun p : Nat × Nat => (⟨p.2, p.1, f p.1, false⟩ : H)) = Prod.fst := by
    funext p; rfl
  rw [this, List.zipIdx_map_fst]

theorem ackers_sublist_names (hs : List H) : (ackers hs).Sublist (hs.map (·.name)) :=
  List.filter_sublist.map _

/-- If every batch event's handler names satisfy `R`, every forward's ackers are a sublist of
some name list satisfying `R`. -/
theorem outputs_names (cfg : Cfg) (R : List Nat → Prop) (s : State) (es : List Ev)
    (hinv : Inv cfg s) (hs : BatchesSat (fun _ hs => R (hs.map (·.name))) s)
    (hes : ∀ id names, Ev.batch id names ∈ es → R names) :
    ∀ id ack, Out.forward id ack ∈ outputs cfg s es → ∃ names, R names ∧ ack.Sublist names := by
  induction es generalizing s with
  | nil => intro id ack hm; simp [outputs, trace] at hm
  | cons e es ih =>
    have hstep := step_batches cfg s e (fun _ hs => R (hs.map (·.name))) (fun _ hs => R (hs.map (·.name)))
      hinv (fun _ _ h => h)
      (fun id names he => by
        simp only [mkHandlers_names]; exact hes id names (by simp [he]))
      (fun id i a hs x hs' _ hp hm => by
        simp only [(mark_spec i hs x hs' hm).2.2.2.1]; exact hp)
      hs
    intro id ack hm
    rw [outputs_cons] at hm
    rcases List.mem_append.mp hm with hm | hm
    · obtain ⟨hs', r1, r2⟩ := hstep.2 id ack hm
      exact ⟨_, r1, r2.trans (ackers_sublist_names hs')⟩
    · exact ih _ (step_spec cfg s e hinv).1 hstep.1
        (fun id names hm' => hes id names (by simp [hm'])) id ack hm

/-! ### Instance 2: every counted handler has its completion event in the history -/

/-- Every handler of batch `id` stems from a `batch id names` event (name = `names[idx]`) and, if
completed, from a `complete id idx _` event of the history. -/
def Linked (hist : List Ev) (id : Nat) (hs : List H) : Prop :=
  ∀ h ∈ hs, (∃ names, Ev.batch id names ∈ hist ∧ names[h.idx]? = some h.name) ∧
    (h.done = true → ∃ a, Ev.complete id h.idx a ∈ hist)

/-- Every acker named in a forward completed (ACK or drop) one of the batch's handlers. -/
def AckersLinked (hist : List Ev) (id : Nat) (ack : List Nat) : Prop :=
  ∀ n ∈ ack, ∃ names i a, Ev.batch id names ∈ hist ∧ names[i]? = some n ∧ Ev.complete id i a ∈ hist

theorem linked_mono (hist : List Ev) (e : Ev) (id : Nat) (hs : List H) (h : Linked hist id hs) :
    Linked (hist ++ [e]) id hs := by
  intro x hx
  obtain ⟨⟨names, n1, n2⟩, d⟩ := h x hx
  refine ⟨⟨names, by simp [n1], n2⟩, ?_⟩
  intro hd
  obtain ⟨a, ha⟩ := d hd
  exact ⟨a, by simp [ha]⟩

theorem linked_ackers (hist : List Ev) (id : Nat) (hs : List H) (ack : List Nat)
    (h : Linked hist id hs) (hsub : ack.Sublist (ackers hs)) : AckersLinked hist id ack := by
  intro n hn
  have hn' := hsub.subset hn
  simp only [ackers, List.mem_map, List.mem_filter] at hn'
  obtain ⟨x, ⟨hx, hd⟩, rfl⟩ := hn'
  obtain ⟨⟨names, n1, n2⟩, d⟩ := h x hx
  obtain ⟨a, ha⟩ := d hd
  exact ⟨names, x.idx, a, n1, n2, ha⟩

theorem step_linked (cfg : Cfg) (s : State) (hist : List Ev) (e : Ev) (hinv : Inv cfg s)
    (h : BatchesSat (Linked hist) s) :
    BatchesSat (Linked (hist ++ [e])) (step cfg s e).1 ∧
    ∀ id ack, Out.forward id ack ∈ (step cfg s e).2 → AckersLinked (hist ++ [e]) id ack := by
  have := step_batches cfg s e (Linked hist) (Linked (hist ++ [e])) hinv
    (fun id hs => linked_mono hist e id hs)
    (fun id names he => by
      intro x hx
      simp only [mkHandlers, List.mem_map] at hx
      obtain ⟨p, hp, rfl⟩ := hx
      refine ⟨⟨names, by simp [he], ?_⟩, by simp⟩
      exact List.mem_zipIdx_iff_getElem?.mp hp)
    (fun id i a hs x hs' he hp hm => by
      obtain ⟨m1, m2, _, _, _, m6, _⟩ := mark_spec i hs x hs' hm
      intro y hy
      rcases m6 y hy with hy | hy
      · exact linked_mono hist e id hs hp y hy
      · subst hy
        obtain ⟨⟨names, n1, n2⟩, _⟩ := hp x m1
        refine ⟨⟨names, by simp [n1], n2⟩, ?_⟩
        intro _
        exact ⟨a, by simp [he, m2]⟩)
    h
  refine ⟨this.1, ?_⟩
  intro id ack hm
  obtain ⟨hs, l1, l2⟩ := this.2 id ack hm
  exact linked_ackers _ id hs ack l1 l2

theorem run_linked (cfg : Cfg) (s : State) (hist es : List Ev) (hinv : Inv cfg s)
    (h : BatchesSat (Linked hist) s) :
    Inv cfg (run cfg s es) ∧ BatchesSat (Linked (hist ++ es)) (run cfg s es) := by
  induction es generalizing s hist with
  | nil => simpa [run] using ⟨hinv, h⟩
  | cons e es ih =>
    have := ih (step cfg s e).1 (hist ++ [e]) (step_spec cfg s e hinv).1 (step_linked cfg s hist e hinv h).1
    simpa [run] using this

end HS.QW
