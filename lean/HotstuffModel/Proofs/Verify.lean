import HotstuffModel.Model.Aggregator
import HotstuffModel.Proofs.Committee
/-
What acceptance by the `verify` functions means (both directions).
-/
namespace HS

/-! The guards of the `verify` functions come from the source (Generated/Guards.lean).  The proofs
below need them in exactly these shapes; a guard that changes stops normalising here. -/
theorem stakeGuard_eq (s : Nat) : (!decide (s > 0)) = (s == 0) := by cases s <;> simp
theorem quorumGuard_eq (w q : Nat) : ((!decide (w ≥ q)) = true) = (w < q) := by
  by_cases h : w < q
  · simp [h]
  · simp [h]

theorem checkSigners_ok_iff (c : Committee) (l used : List Nat) (w w' : Nat) :
    checkSigners c l used w = .ok w' ↔
      (l.Nodup ∧ (∀ x ∈ l, x ∉ used) ∧ (∀ x ∈ l, c.stake x ≠ 0) ∧ w' = w + c.weight l) := by
  induction l generalizing used w with
  | nil => simp [checkSigners, Committee.weight]; exact eq_comm
  | cons a l ih =>
    unfold checkSigners
    simp only [Gen.certSignerStake, stakeGuard_eq]
    by_cases h1 : used.contains a = true
    · simp only [h1, if_true]
      constructor
      · intro h; cases h
      · intro h
        have := h.2.1 a (by simp)
        simp at h1
        exact absurd h1 this
    · simp only [h1, Bool.false_eq_true, if_false]
      by_cases h2 : (c.stake a == 0) = true
      · simp only [h2, if_true]
        constructor
        · intro h; cases h
        · intro h
          have := h.2.2.1 a (by simp)
          simp at h2
          exact absurd h2 this
      · simp only [h2, Bool.false_eq_true, if_false]
        rw [ih]
        simp at h1 h2
        simp only [List.nodup_cons, List.mem_cons, Committee.weight, List.map_cons, List.sum_cons]
        constructor
        · rintro ⟨hn, hu, hs, hw⟩
          refine ⟨⟨?_, hn⟩, ?_, ?_, by omega⟩
          · intro ha; exact (hu a ha) (by simp)
          · intro x hx
            rcases hx with rfl | hx
            · exact h1
            · intro hxu; exact hu x hx (by simp [hxu])
          · intro x hx
            rcases hx with rfl | hx
            · exact h2
            · exact hs x hx
        · rintro ⟨⟨hna, hn⟩, hu, hs, hw⟩
          refine ⟨hn, ?_, ?_, by omega⟩
          · intro x hx hxu
            rcases hxu with rfl | hxu
            · exact hna hx
            · exact hu x (Or.inr hx) hxu
          · intro x hx; exact hs x (Or.inr hx)

/-- `QC::verify` accepts exactly the certificates with distinct, staked signers of quorum weight
whose signatures all verify for the certificate's content. -/
theorem QC.verify_ok_iff (c : Committee) (q : QC) :
    q.verify c = .ok () ↔
      (q.signers.Nodup ∧ (∀ x ∈ q.signers, c.stake x ≠ 0) ∧ c.quorum ≤ c.weight q.signers ∧
        ∀ v ∈ q.votes, v.2.valid q.content v.1 = true) := by
  unfold QC.verify
  cases hcs : checkSigners c q.signers [] 0 with
  | error e =>
    simp only
    constructor
    · intro h; cases h
    · intro h
      have := (checkSigners_ok_iff c q.signers [] 0 (0 + c.weight q.signers)).mpr
        ⟨h.1, by simp, h.2.1, rfl⟩
      rw [hcs] at this; cases this
  | ok w =>
    have hw := (checkSigners_ok_iff c q.signers [] 0 w).mp hcs
    simp only [Gen.qcVerifyQuorum, quorumGuard_eq]
    by_cases hq : w < c.quorum
    · simp only [hq, if_true]
      constructor
      · intro h; cases h
      · intro h; omega
    · simp only [hq, if_false]
      by_cases hs : (q.votes.all fun v => v.2.valid q.content v.1) = true
      · simp only [hs, if_true, true_iff]
        refine ⟨hw.1, hw.2.2.1, by omega, ?_⟩
        simpa [List.all_eq_true] using hs
      · simp only [hs]
        constructor
        · intro h; cases h
        · intro h
          exfalso; apply hs
          simp only [List.all_eq_true]
          exact fun v hv => h.2.2.2 v hv

theorem TC.verify_ok_iff (c : Committee) (t : TC) :
    t.verify c = .ok () ↔
      (t.signers.Nodup ∧ (∀ x ∈ t.signers, c.stake x ≠ 0) ∧ c.quorum ≤ c.weight t.signers ∧
        ∀ v ∈ t.votes, v.2.1.valid (.timeout t.round v.2.2) v.1 = true) := by
  unfold TC.verify
  cases hcs : checkSigners c t.signers [] 0 with
  | error e =>
    simp only
    constructor
    · intro h; cases h
    · intro h
      have := (checkSigners_ok_iff c t.signers [] 0 (0 + c.weight t.signers)).mpr
        ⟨h.1, by simp, h.2.1, rfl⟩
      rw [hcs] at this; cases this
  | ok w =>
    have hw := (checkSigners_ok_iff c t.signers [] 0 w).mp hcs
    simp only [Gen.tcVerifyQuorum, quorumGuard_eq]
    by_cases hq : w < c.quorum
    · simp only [hq, if_true]
      constructor
      · intro h; cases h
      · intro h; omega
    · simp only [hq, if_false]
      by_cases hs : (t.votes.all fun v => v.2.1.valid (.timeout t.round v.2.2) v.1) = true
      · simp only [hs, if_true, true_iff]
        refine ⟨hw.1, hw.2.2.1, by omega, ?_⟩
        simpa [List.all_eq_true] using hs
      · simp only [hs]
        constructor
        · intro h; cases h
        · intro h
          exfalso; apply hs
          simp only [List.all_eq_true]
          exact fun v hv => h.2.2.2 v hv

theorem Vote.verify_ok_iff (c : Committee) (v : Vote) :
    v.verify c = .ok () ↔ (c.stake v.author ≠ 0 ∧ v.sig.valid v.content v.author = true) := by
  unfold Vote.verify
  simp only [Gen.voteAuthorStake, stakeGuard_eq]
  by_cases h1 : (c.stake v.author == 0) = true
  · simp only [h1, if_true]
    simp at h1
    constructor
    · intro h; cases h
    · intro h; exact absurd h1 h.1
  · simp only [h1]
    simp at h1
    by_cases h2 : v.sig.valid v.content v.author = true
    · simp [h2, h1]
    · simp [h2]

theorem Timeout.verify_ok_iff (c : Committee) (t : Timeout) :
    t.verify c = .ok () ↔
      (c.stake t.author ≠ 0 ∧ t.sig.valid t.content t.author = true ∧
        (t.highQC.isGenesis = true ∨ t.highQC.verify c = .ok ())) := by
  unfold Timeout.verify
  simp only [Gen.timeoutAuthorStake, stakeGuard_eq]
  by_cases h1 : (c.stake t.author == 0) = true
  · simp only [h1, if_true]
    simp at h1
    constructor
    · intro h; cases h
    · intro h; exact absurd h1 h.1
  · simp only [h1]
    simp at h1
    by_cases h2 : t.sig.valid t.content t.author = true
    · simp only [h2, Bool.not_true]
      by_cases h3 : t.highQC.isGenesis = true
      · simp [h3, h1]
      · simp [h3, h1]
    · simp [h2]

theorem Block.verify_ok_iff (c : Committee) (b : Block) :
    b.verify c = .ok () ↔
      (c.stake b.author ≠ 0 ∧ b.sig.valid (.block b.digest) b.author = true ∧
        (b.qc.isGenesis = true ∨ b.qc.verify c = .ok ()) ∧
        ∀ tc, b.tc = some tc → tc.verify c = .ok ()) := by
  unfold Block.verify
  simp only [Gen.blockAuthorStake, stakeGuard_eq]
  by_cases h1 : (c.stake b.author == 0) = true
  · simp only [h1, if_true]
    simp at h1
    constructor
    · intro h; cases h
    · intro h; exact absurd h1 h.1
  · simp only [h1]
    simp at h1
    by_cases h2 : b.sig.valid (.block b.digest) b.author = true
    · simp only [h2, Bool.not_true]
      by_cases h3 : b.qc.isGenesis = true
      · simp only [h3, if_true]
        cases htc : b.tc with
        | none => simp [h1]
        | some tc => simp [h1]
      · simp only [h3]
        cases hq : b.qc.verify c with
        | error e =>
          simp
        | ok u =>
          cases htc : b.tc with
          | none => simp [h1]
          | some tc => simp [h1]
    · simp [h2]

end HS
