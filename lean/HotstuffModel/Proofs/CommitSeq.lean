import HotstuffModel.Proofs.Commit
import HotstuffModel.Proofs.NodeExt
/-
How the commit channel of one node grows: every micro-step appends one (possibly empty) run of
deliveries that is parent-linked, lies above the old watermark and attaches at it.
-/
namespace HS
open Node

/-- The deliveries recorded in a history, newest first. -/
def commitsOf (h : List Out) : List Block :=
  h.filterMap (fun o => match o with | .commit b => some b | _ => none)

@[simp] theorem commitsOf_nil : commitsOf [] = [] := rfl
theorem commitsOf_cons_commit (b : Block) (h : List Out) : commitsOf (.commit b :: h) = b :: commitsOf h := rfl
theorem commitsOf_cons_other (o : Out) (h : List Out) (ho : o.isCommitOut = false) :
    commitsOf (o :: h) = commitsOf h := by
  cases o <;> simp [Out.isCommitOut] at ho <;> rfl
theorem commitsOf_append (a b : List Out) : commitsOf (a ++ b) = commitsOf a ++ commitsOf b := by
  simp [commitsOf, List.filterMap_append]
theorem commitsOf_map_commit (l : List Block) : commitsOf (l.map Out.commit) = l := by
  induction l with
  | nil => rfl
  | cons a l ih => simp [commitsOf_cons_commit, ih]

theorem mem_commitsOf {h : List Out} {b : Block} : b ∈ commitsOf h ↔ Out.commit b ∈ h := by
  induction h with
  | nil => simp
  | cons o h ih =>
    cases o <;> simp [commitsOf, List.filterMap_cons] <;> first | exact ih | (rw [← ih]; simp [commitsOf])

/-- Nothing delivered, watermark untouched. -/
structure CFrame (s s' : Node) : Prop where
  lc : s'.lastCommitted = s.lastCommitted
  cm : commitsOf s'.hist = commitsOf s.hist

theorem CFrame.refl (s : Node) : CFrame s s := ⟨rfl, rfl⟩
theorem CFrame.trans {a b c : Node} (h1 : CFrame a b) (h2 : CFrame b c) : CFrame a c :=
  ⟨h2.lc.trans h1.lc, h2.cm.trans h1.cm⟩

theorem cframe_emit (s : Node) (o : Out) (ho : o.isCommitOut = false) : CFrame s (s.emit o) :=
  ⟨rfl, by simp [commitsOf_cons_other _ _ ho]⟩
theorem cframe_fail (s : Node) (p : PanicSite) : CFrame s (s.fail p) := ⟨rfl, rfl⟩

theorem cframe_advanceRound (s : Node) (r : Nat) (ev : Evidence) : CFrame s (s.advanceRound r ev) := by
  unfold advanceRound; split
  · exact CFrame.refl s
  · exact ⟨rfl, by simp [commitsOf_cons_other _ _ (rfl : (Out.entered (r+1) ev).isCommitOut = false)]⟩

theorem cframe_processQC (s : Node) (qc : QC) : CFrame s (s.processQC qc) := by
  unfold processQC updateHighQC
  split
  · exact ⟨(cframe_advanceRound s _ _).lc, (cframe_advanceRound s _ _).cm⟩
  · exact cframe_advanceRound s _ _

theorem cframe_generateProposal (s : Node) (tc : Option TC) : CFrame s (s.generateProposal tc) := by
  unfold generateProposal
  exact ⟨rfl, by simp [commitsOf_cons_other _ _ (rfl : (Out.make s.round s.highQC tc).isCommitOut = false)]⟩

theorem cframe_handleVote (c : Committee) (s : Node) (v : Vote) : CFrame s (s.handleVote c v) := by
  unfold handleVote
  split
  · exact CFrame.refl s
  · split
    · exact CFrame.refl s
    · split
      · exact CFrame.refl s
      · exact ⟨rfl, rfl⟩
      · rename_i agg qc _
        simp only []
        have h1 : CFrame s (({ s with agg := agg }).processQC qc) :=
          CFrame.trans (b := { s with agg := agg }) ⟨rfl, rfl⟩ (cframe_processQC _ _)
        split
        · exact CFrame.trans h1 (cframe_generateProposal _ _)
        · exact h1

theorem cframe_handleTimeout (c : Committee) (s : Node) (t : Timeout) : CFrame s (s.handleTimeout c t) := by
  unfold handleTimeout
  split
  · exact CFrame.refl s
  · split
    · exact CFrame.refl s
    · simp only []
      have h0 := cframe_processQC s t.highQC
      split
      · exact h0
      · exact CFrame.trans h0 ⟨rfl, rfl⟩
      · rename_i agg tc _
        have ha : CFrame (s.processQC t.highQC) ({ (s.processQC t.highQC) with agg := agg }) := ⟨rfl, rfl⟩
        have h1 := CFrame.trans (CFrame.trans (CFrame.trans h0 ha) (cframe_advanceRound _ tc.round (.tc tc)))
          (cframe_emit _ (.tc tc) rfl)
        split
        · exact CFrame.trans h1 (cframe_generateProposal _ _)
        · exact h1

theorem cframe_handleTC (c : Committee) (s : Node) (tc : TC) : CFrame s (s.handleTC c tc) := by
  unfold handleTC
  split
  · exact CFrame.refl s
  · split
    · exact CFrame.refl s
    · simp only []
      split
      · exact CFrame.trans (cframe_advanceRound s _ _) (cframe_generateProposal _ _)
      · exact cframe_advanceRound s _ _

theorem cframe_localTimeout (c : Committee) (s : Node) : CFrame s (s.localTimeout c) := by
  unfold localTimeout
  refine CFrame.trans ?_ (cframe_handleTimeout c _ _)
  exact CFrame.trans (b := { s with lastVoted := max s.lastVoted s.round }) ⟨rfl, rfl⟩ (cframe_emit _ _ rfl)

theorem cframe_makeVote (s : Node) (b : Block) : CFrame s (s.makeVote b).1 := by
  unfold makeVote
  split
  · exact cframe_fail _ _
  · split
    · exact CFrame.trans (b := { s with lastVoted := max s.lastVoted b.round }) ⟨rfl, rfl⟩ (cframe_emit _ _ rfl)
    · exact CFrame.refl s

theorem cframe_park (c : Committee) (s : Node) (b : Block) : CFrame s (park c s b) := by
  unfold park
  split
  · exact CFrame.refl s
  · split
    · exact ⟨rfl, rfl⟩
    · split
      · exact CFrame.trans (b := { s with syncPending := s.syncPending ++ [b], syncRequests := s.syncRequests ++ [b.parent] })
          ⟨rfl, rfl⟩ (cframe_emit _ _ rfl)
      · exact ⟨rfl, rfl⟩

theorem cframe_getParent (c : Committee) (s : Node) (b : Block) : CFrame s (getParent c s b).1 := by
  unfold getParent
  split
  · exact CFrame.refl s
  · split
    · exact CFrame.refl s
    · exact CFrame.refl s
    · exact cframe_park c s b

theorem cframe_sendVote (c : Committee) (s : Node) (v : Vote) : CFrame s (sendVote c s v) := by
  unfold sendVote
  split
  · exact CFrame.trans (cframe_emit s _ rfl) (cframe_handleVote c _ v)
  · split
    · exact cframe_emit s _ rfl
    · exact cframe_fail _ _

theorem cframe_voteStage (c : Committee) (s : Node) (ok : Bool) (b : Block) : CFrame s (voteStage c s ok b) := by
  unfold voteStage
  split
  · exact CFrame.refl s
  · split
    · exact CFrame.refl s
    · have hm := cframe_makeVote s b
      split
      · rename_i s' heq; rw [heq] at hm; exact hm
      · rename_i s' v heq; rw [heq] at hm; exact CFrame.trans hm (cframe_sendVote c s' v)

theorem cframe_afterStore (s : Node) (b0 b1 b : Block) : CFrame s (afterStore s b0 b1 b) := ⟨rfl, rfl⟩

theorem cframe_mempoolCleanup (s : Node) (r : Nat) : CFrame s (s.mempoolCleanup r) := by
  unfold mempoolCleanup
  exact ⟨rfl, by simp [commitsOf_cons_other _ _ (rfl : (Out.mempoolCleanup r).isCommitOut = false)]⟩

theorem cframe_beforeCommit (s : Node) (b0 b1 b : Block) : CFrame s (beforeCommit s b0 b1 b) := by
  unfold beforeCommit
  exact CFrame.trans (CFrame.trans (cframe_afterStore s b0 b1 b) (cframe_mempoolCleanup _ _)) (cframe_emit _ _ rfl)

theorem cframe_payloadVerify (s : Node) (b : Block) : CFrame s (s.payloadVerify b).1 := by
  unfold payloadVerify
  simp only []
  split
  · exact CFrame.refl s
  · split
    · exact cframe_emit s _ rfl
    · exact CFrame.trans (cframe_emit s _ rfl) ⟨rfl, rfl⟩

theorem cframe_advanceTC (s : Node) (tc : Option TC) : CFrame s (s.advanceTC tc) := by
  unfold advanceTC; split
  · exact cframe_advanceRound _ _ _
  · exact CFrame.refl s

/-- What one micro-step may add to the commit channel: a run `D` (oldest first, possibly empty). -/
structure CSpec (s s' : Node) : Prop where
  run : ∃ D : List Block,
    commitsOf s'.hist = D.reverse ++ commitsOf s.hist ∧
    (D = [] → s'.lastCommitted = s.lastCommitted) ∧
    (D ≠ [] → Linked D ∧ (∃ last, D.getLast? = some last ∧ s'.lastCommitted = last.round) ∧
      (∀ x ∈ D, s.lastCommitted < x.round ∧ x ≠ Block.genesis) ∧
      ∃ first rest, D = first :: rest ∧
        (first.round = s.lastCommitted + 1 ∨ ∃ p, IsParent p first ∧ p.round ≤ s.lastCommitted))

theorem CSpec.of_frame {s s' : Node} (h : CFrame s s') : CSpec s s' :=
  ⟨⟨[], by simp [h.cm], fun _ => h.lc, fun hne => absurd rfl hne⟩⟩

theorem CSpec.frame_left {a b c : Node} (h1 : CFrame a b) (h2 : CSpec b c) : CSpec a c := by
  obtain ⟨D, hc, he, hn⟩ := h2.run
  refine ⟨⟨D, by rw [hc, h1.cm], fun hD => (he hD).trans h1.lc, ?_⟩⟩
  intro hD
  have := hn hD
  rw [h1.lc] at this
  exact this

theorem CSpec.frame_right {a b c : Node} (h1 : CSpec a b) (h2 : CFrame b c) : CSpec a c := by
  obtain ⟨D, hc, he, hn⟩ := h1.run
  refine ⟨⟨D, by rw [h2.cm, hc], fun hD => h2.lc.trans (he hD), ?_⟩⟩
  intro hD
  obtain ⟨hl, ⟨last, hlast, hlc⟩, hall, hatt⟩ := hn hD
  exact ⟨hl, ⟨last, hlast, h2.lc.trans hlc⟩, hall, hatt⟩

theorem cspec_commit (c : Committee) (s : Node) (h4 : Inv4 s) (b : Block)
    (hb : b = Block.genesis ∨ ∃ d, (d, b) ∈ s.store) : CSpec s (commit c s b).1 := by
  by_cases hlt : s.lastCommitted < b.round
  · by_cases hok : (commit c s b).2 = true
    · obtain ⟨D, hh, hlc, hl, hlast, hall, hatt⟩ := commit_spec c s h4 b hb hlt hok
      have hne : D ≠ [] := by
        intro e; rw [e] at hlast; simp at hlast
      refine ⟨⟨D, ?_, fun e => absurd e hne, fun _ => ⟨hl, ⟨b, hlast, hlc⟩, hall, hatt⟩⟩⟩
      rw [hh, commitsOf_append, commitsOf_map_commit]
    · -- the walk failed: nothing delivered
      apply CSpec.of_frame
      unfold commit at hok ⊢
      have hnle : ¬ s.lastCommitted ≥ b.round := by omega
      simp only [hnle, if_false] at hok ⊢
      split
      · exact cframe_fail _ _
      · exact CFrame.refl s
      · rename_i anc hw; simp [hw] at hok
  · apply CSpec.of_frame
    unfold commit
    have : s.lastCommitted ≥ b.round := by omega
    simp [this]
    exact CFrame.refl s

theorem cspec_processBlockTail (c : Committee) (s : Node) (b0 b1 b : Block) (h4 : Inv4 s)
    (hpar : b.qc.isGenesis = true ∨ (s.store.lookup b.parent).isSome = true)
    (hb0 : b0 = Block.genesis ∨ ∃ d, (d, b0) ∈ s.store) :
    CSpec s (processBlockTail c s b0 b1 b) := by
  unfold processBlockTail
  split
  · have h4bc : Inv4 (beforeCommit s b0 b1 b) :=
      inv4_emit _ _ (inv4_mempoolCleanup _ _ (inv4_afterStore s b0 b1 b h4 hpar))
    have hb0' : b0 = Block.genesis ∨ ∃ d, (d, b0) ∈ (beforeCommit s b0 b1 b).store := by
      rcases hb0 with rfl | ⟨d, hd⟩
      · left; rfl
      · right; exact ⟨d, by simp [beforeCommit, mempoolCleanup, afterStore_store]; right; exact hd⟩
    exact CSpec.frame_right
      (CSpec.frame_left (cframe_beforeCommit s b0 b1 b) (cspec_commit c _ h4bc b0 hb0'))
      (cframe_voteStage c _ _ b)
  · exact CSpec.of_frame (CFrame.trans (cframe_afterStore s b0 b1 b) (cframe_voteStage c _ _ b))

theorem cspec_processBlock (c : Committee) (s : Node) (b : Block) (h4 : Inv4 s) :
    CSpec s (processBlock c s b) := by
  unfold processBlock
  have f1 := cframe_getParent c s b
  split
  · exact CSpec.of_frame f1
  · exact CSpec.of_frame f1
  · rename_i b1 hb1
    obtain ⟨hs1, hspec1⟩ := getParent_found_spec c s b b1 hb1
    rw [hs1]
    have hcl1 : b1.qc.isGenesis = true ∨ (s.store.lookup b1.parent).isSome = true := by
      rcases hspec1 with ⟨_, rfl⟩ | hl
      · left; exact genesis_isGenesis
      · exact h4.closed _ b1 (mem_of_lookup hl)
    obtain ⟨b0, hb0⟩ := getParent_of_closed c s b1 hcl1
    rw [hb0]
    simp only
    have hf0 : (getParent c s b1).2 = .found b0 := by rw [hb0]
    apply cspec_processBlockTail c s b0 b1 b h4
    · rcases hspec1 with ⟨hg, _⟩ | hl
      · left; exact hg
      · right; rw [hl]; rfl
    · rcases (getParent_found_spec c s b1 b0 hf0).2 with ⟨_, rfl⟩ | hl
      · left; rfl
      · right; exact ⟨_, mem_of_lookup hl⟩

theorem cspec_step (c : Committee) (s : Node) (e : Event) (h4 : Inv4 s) : CSpec s (step c s e) := by
  unfold step
  split
  · exact CSpec.of_frame (CFrame.refl s)
  · split
    · -- proposal
      rename_i b
      unfold handleProposal
      split
      · exact CSpec.of_frame (CFrame.refl s)
      · split
        · exact CSpec.of_frame (CFrame.refl s)
        · have f1 : CFrame s ((s.processQC b.qc).advanceTC b.tc) :=
            CFrame.trans (cframe_processQC s b.qc) (cframe_advanceTC _ b.tc)
          have h41 : Inv4 ((s.processQC b.qc).advanceTC b.tc) := inv4_advanceTC _ _ (inv4_processQC s b.qc h4)
          apply CSpec.frame_left f1
          unfold proposalTail
          have fp := cframe_payloadVerify ((s.processQC b.qc).advanceTC b.tc) b
          have h4p := inv4_payloadVerify ((s.processQC b.qc).advanceTC b.tc) b h41
          split
          · rename_i s' heq; rw [heq] at fp; exact CSpec.of_frame fp
          · rename_i s' heq
            rw [heq] at fp h4p
            exact CSpec.frame_left fp (cspec_processBlock c s' b h4p)
    · exact CSpec.of_frame (cframe_handleVote c s _)
    · exact CSpec.of_frame (cframe_handleTimeout c s _)
    · exact CSpec.of_frame (cframe_handleTC c s _)
    · exact CSpec.of_frame (cframe_localTimeout c s)
    · split
      · exact CSpec.of_frame (CFrame.refl s)
      · rename_i b rest hq
        refine CSpec.frame_left (b := { s with loopQ := rest }) ⟨rfl, rfl⟩ ?_
        exact cspec_processBlock c _ b ⟨h4.keyed, h4.closed, h4.noPanic⟩
    · apply CSpec.of_frame
      unfold proposerStep
      split
      · exact CFrame.refl s
      · exact ⟨rfl, rfl⟩
      · split
        · exact CFrame.refl s
        · exact CFrame.trans (b := { s with propQ := _, buffer := [], loopQ := _ }) ⟨rfl, rfl⟩ (cframe_emit _ _ rfl)
    · apply CSpec.of_frame
      unfold digestStep storeBatch
      (repeat' split) <;> exact ⟨rfl, rfl⟩
    · apply CSpec.of_frame
      unfold storeBatch
      split <;> exact ⟨rfl, rfl⟩
    · apply CSpec.of_frame
      split
      · exact CFrame.refl s
      · split
        · exact CFrame.refl s
        · exact ⟨rfl, rfl⟩
    · apply CSpec.of_frame
      split
      · exact CFrame.refl s
      · split
        · exact ⟨rfl, rfl⟩
        · exact CFrame.refl s
    · apply CSpec.of_frame
      split
      · exact cframe_emit _ _ rfl
      · exact CFrame.refl s
    · apply CSpec.of_frame
      unfold helperStep
      split
      · exact CFrame.refl s
      · split
        · exact cframe_emit _ _ rfl
        · exact CFrame.refl s
        · first
            | exact CFrame.refl s
            | (split
               · exact CFrame.refl s
               · exact cframe_fail _ _)

end HS
