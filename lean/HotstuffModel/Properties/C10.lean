import HotstuffModel.Proofs.Ordering
import HotstuffModel.Proofs.NodeExt
/-!
# C10 — Pacemaker: rounds monotone, evidence-based, timeouts carry the highest QC

For EVERY finite event list from the initial state (messages for past and future rounds, valid or
not, in any order, interleaved with timer expiries and internal wake-ups) and every committee.
`Out.entered r ev` is the ghost record written by `advance_round` when the round changes;
`ev` is the certificate (`QC` or `TC`) that was passed to `advance_round`.
(That every such certificate was verified or assembled from verified votes/timeouts is in
`HS.C10.entered_evidence_is_verified`, file Properties/C10b.lean, once Layer 2 is in place.)
-/
namespace HS.C10
open HS Node

/-- The round a node acts in never decreases — in any single micro-step from ANY state. -/
theorem round_never_decreases_step (c : Committee) (s : Node) (e : Event) :
    s.round ≤ (step c s e).round := (ext_step c s e).round

/-- … hence along every run. -/
theorem round_never_decreases (c : Committee) (s : Node) (es es' : List Event) :
    (run c s es).round ≤ (run c s (es ++ es')).round := by
  have : run c s (es ++ es') = run c (run c s es) es' := by simp [run, List.foldl_append]
  rw [this]
  exact (ext_run c _ es').round

/-- A step that changes the round records the certificate that justified it, and the
certificate is for exactly the preceding round. -/
theorem round_change_has_certificate (c : Committee) (s : Node) (e : Event)
    (h : (step c s e).round ≠ s.round) :
    ∃ new ev, (step c s e).hist = new ++ s.hist ∧ Out.entered (step c s e).round ev ∈ new := by
  obtain ⟨new, hnew, hr⟩ := (ext_step c s e).hist
  obtain ⟨ev, hev⟩ := hr h
  exact ⟨new, ev, hnew, hev⟩

/-- Rounds are entered in strictly increasing order, each at most the current round. -/
theorem entered_rounds_increase (c : Committee) (name : Nat) (es : List Event)
    (h1 h2 : List Out) (r : Nat) (ev : Evidence)
    (hh : (run c (init c name) es).hist = h1 ++ .entered r ev :: h2) :
    (∀ r' ev', Out.entered r' ev' ∈ h2 → r' < r) ∧ r ≤ (run c (init c name) es).round := by
  have i2 := (reachable_inv c name es).2
  have := i2.entered
  rw [hh] at this
  exact ⟨enteredOrd_split this, i2.enteredLe r ev (by rw [hh]; simp)⟩

/-- `high_qc` never goes down and is always below the current round. -/
theorem high_qc_monotone_and_below_round (c : Committee) (name : Nat) (es es' : List Event) :
    (run c (init c name) es).highQC.round ≤ (run c (init c name) (es ++ es')).highQC.round ∧
    (run c (init c name) es).highQC.round < (run c (init c name) es).round := by
  have : run c (init c name) (es ++ es') = run c (run c (init c name) es) es' := by
    simp [run, List.foldl_append]
  rw [this]
  exact ⟨(ext_run c _ es').hq, (reachable_inv c name es).1.hq_lt⟩

/-- Every timeout the node signs carries a QC at least as high as the QC of any block it voted
for before and as any QC it has itself sent before (in its own proposals, in earlier timeouts,
in blocks its helper re-sent); and the QC is of a lower round than the timeout. -/
theorem timeout_carries_highest_qc (c : Committee) (name : Nat) (es : List Event)
    (h1 h2 : List Out) (t : Timeout)
    (hh : (run c (init c name) es).hist = h1 ++ .timeout t :: h2) :
    (∀ b, Out.voted b ∈ h2 → b.qc.round ≤ t.highQC.round) ∧
    (∀ b, Out.propose b ∈ h2 → b.qc.round ≤ t.highQC.round) ∧
    (∀ t', Out.timeout t' ∈ h2 → t'.highQC.round ≤ t.highQC.round) ∧
    (∀ to b, Out.helperReply to b ∈ h2 → b.qc.round ≤ t.highQC.round) ∧
    t.highQC.round < t.round := by
  have i := reachable_inv c name es
  have ht := i.2.touts
  rw [hh] at ht
  have key : ∀ (h1 : List Out), toutsOrd (h1 ++ .timeout t :: h2) →
      (∀ b, Out.voted b ∈ h2 → b.qc.round ≤ t.highQC.round) ∧
      (∀ b, Out.propose b ∈ h2 → b.qc.round ≤ t.highQC.round) ∧
      (∀ t', Out.timeout t' ∈ h2 → t'.highQC.round ≤ t.highQC.round) ∧
      (∀ to b, Out.helperReply to b ∈ h2 → b.qc.round ≤ t.highQC.round) := by
    intro h1
    induction h1 with
    | nil => intro h; simp [toutsOrd] at h; exact ⟨h.1, h.2.1, h.2.2.1, h.2.2.2.1⟩
    | cons o h1 ih =>
      intro h
      cases o <;> simp [toutsOrd] at h <;> first | exact ih h | exact ih h.2.2.2.2
  obtain ⟨a, b, c', d⟩ := key h1 ht
  exact ⟨a, b, c', d, (i.1.touts t (by rw [hh]; simp)).2.2⟩

/-- Non-vacuity: the timer fires in round 1, then a valid TC of round 1 arrives: the node enters
round 2 on that evidence. -/
example :
    let c : Committee := ⟨[(1, 1), (2, 1), (3, 1), (4, 1)]⟩
    let tc : TC := { round := 1, votes := [(1, ⟨1, .timeout 1 0⟩, 0), (2, ⟨2, .timeout 1 0⟩, 0), (4, ⟨4, .timeout 1 0⟩, 0)] }
    let s := run c (init c 1) [.timer, .msg (.tc tc)]
    s.round = 2 ∧ s.hist.contains (.entered 2 (.tc tc)) = true ∧ s.lastVoted = 1 := by
  decide

end HS.C10
