import HotstuffModel.Proofs.Reachable
import HotstuffModel.Properties.C17
/-!
# C19 — Certificates a node assembles are valid, need a quorum, and are formed once

Part 1: the aggregator (`QCMaker`/`TCMaker::append`), for every committee and every sequence of
verified votes/timeouts.  Part 2: everything the node sends out or acts upon verifies.
-/
namespace HS.C19
open HS Node

/-- A QC is returned exactly in the step in which the accumulated stake first reaches the quorum —
never earlier — it verifies at every honest node, is for exactly the vote's (hash, round), never
counts an authority twice (the author was not used before), and the maker's weight is reset. -/
theorem qc_formed_exactly_at_quorum (c : Committee) (m m' : QCMaker) (v : Vote) (r : Option QC)
    (hm : QCMakerOK c (v.round, v.hash) m) (hv : v.verify c = .ok ())
    (h : m.append c v = .ok (m', r)) :
    QCMakerOK c (v.round, v.hash) m' ∧
    (∀ qc, r = some qc → qc.verify c = .ok () ∧ qc.hash = v.hash ∧ qc.round = v.round ∧
      c.quorum ≤ m.weight + c.stake v.author ∧ v.author ∉ m.used ∧ m'.weight = 0) ∧
    (r = none → m.weight + c.stake v.author < c.quorum ∧ m'.weight = m.weight + c.stake v.author) :=
  qcmaker_append_ok c m m' v r hm hv h

theorem tc_formed_exactly_at_quorum (c : Committee) (m m' : TCMaker) (t : Timeout) (r : Option TC)
    (hm : TCMakerOK c t.round m) (hv : t.verify c = .ok ())
    (h : m.append c t = .ok (m', r)) :
    TCMakerOK c t.round m' ∧
    (∀ tc, r = some tc → tc.verify c = .ok () ∧ tc.round = t.round ∧
      c.quorum ≤ m.weight + c.stake t.author ∧ t.author ∉ m.used ∧ m'.weight = 0) ∧
    (r = none → m.weight + c.stake t.author < c.quorum ∧ m'.weight = m.weight + c.stake t.author) :=
  tcmaker_append_ok c m m' t r hm hv h

/-- A second vote of the same authority for the same (hash, round) is refused and changes nothing. -/
theorem duplicate_vote_refused (c : Committee) (m : QCMaker) (v : Vote) (h : v.author ∈ m.used) :
    m.append c v = .error .authorityReuse := by
  unfold QCMaker.append
  simp [h]

/-- Votes for different blocks or rounds are never mixed: a vote only ever touches the maker
filed under its own (round, hash). -/
theorem votes_not_mixed (c : Committee) (a a' : Aggregator) (v : Vote) (r : Option QC)
    (h : a.addVote c v = .ok (a', r)) (k : Nat × Digest) (hk : k ≠ (v.round, v.hash)) :
    a'.getQ k = a.getQ k := by
  unfold Aggregator.addVote at h
  split at h
  · cases h
  · simp only [Except.ok.injEq, Prod.mk.injEq] at h
    rw [← h.1]
    unfold Aggregator.getQ Aggregator.setQ
    simp only [List.lookup_cons]
    have : (k == (v.round, v.hash)) = false := by simpa using hk
    rw [this]
    congr 1
    induction a.votes with
    | nil => rfl
    | cons e l ih =>
      obtain ⟨k', m'⟩ := e
      simp only [List.filter_cons, List.lookup_cons]
      by_cases hk' : k' = (v.round, v.hash)
      · subst hk'
        simp [this]
        exact ih
      · have : (k' != (v.round, v.hash)) = true := by simpa using hk'
        simp only [this, if_true, List.lookup_cons]
        cases (k == k') <;> simp [ih]

/-- After a certificate has been formed the maker cannot form another one: the remaining stake is
below the quorum (committee with distinct keys, total stake in the arithmetic's range). -/
theorem no_second_certificate (c : Committee) (hw : c.WF) (hn1 : 1 ≤ c.total) (hn2 : c.total < 2 ^ 31)
    (k : Nat × Digest) (m : QCMaker) (hm : QCMakerOK c k m)
    (hformed : c.quorum + m.weight ≤ c.weight (m.votes.map Prod.fst))
    (v : Vote) (hk : k = (v.round, v.hash)) (hv : v.verify c = .ok ()) (m' : QCMaker) (r : Option QC)
    (h : m.append c v = .ok (m', r)) : r = none := by
  subst hk
  cases r with
  | none => rfl
  | some qc =>
    exfalso
    obtain ⟨hm', hq, _⟩ := qcmaker_append_ok c m m' v (some qc) hm hv h
    obtain ⟨hver, _, _, hqw, hnot, _⟩ := hq qc rfl
    -- the new maker's authors are distinct members, so they weigh at most the total stake
    have hsub : ∀ x ∈ m'.votes.map Prod.fst, x ∈ c.keys := by
      intro x hx
      obtain ⟨p, hp, rfl⟩ := List.mem_map.mp hx
      exact stake_ne_zero_mem c _ (hm'.valid p hp).1
    have hle := Q.weight_le_of_subset c.stake _ c.keys hm'.nodup hsub
    rw [Committee.weight_keys c hw] at hle
    -- and they weigh the old authors plus the new one
    have hw' : c.weight (m'.votes.map Prod.fst) = c.weight (m.votes.map Prod.fst) + c.stake v.author := by
      unfold QCMaker.append at h
      split at h
      · cases h
      · simp only [] at h
        split at h <;>
          (simp only [Except.ok.injEq, Prod.mk.injEq] at h
           rw [← h.1]
           simp only [List.map_append, List.map_cons, List.map_nil]
           exact weight_append_single c _ _)
    have hb := (C17.threshold_bounds c.total hn1 hn2).1
    unfold Committee.quorum at *
    simp only [Committee.weight_eq] at *
    omega

/-- Every certificate the node sends out or proposes with verifies at every honest node: the TCs
it broadcasts, the QC/TC in every `Make` request and own proposal, the QC in every timeout. -/
theorem sent_certificates_verify (c : Committee) (name : Nat) (hd : Deploy c name) (es : List Event) :
    let s := run c (init c name) es
    (∀ t, Out.tc t ∈ s.hist → t.verify c = .ok ()) ∧
    (∀ b, Out.propose b ∈ s.hist → QCok c b.qc ∧ TCok c b.tc) ∧
    (∀ t, Out.timeout t ∈ s.hist → QCok c t.highQC) ∧
    QCok c s.highQC := by
  intro s
  have i3 := reachable_inv3 c name hd es
  exact ⟨i3.tcs, fun b hb => ⟨(i3.proposed b hb).1.qc, (i3.proposed b hb).1.tc⟩,
    fun t ht => (i3.touts t ht).1, i3.hq⟩

/-- Every maker the node holds is sound at all times: distinct authors, each with stake, each
signature valid for exactly the maker's (hash, round) / (round, high-QC round). -/
theorem aggregator_always_sound (c : Committee) (name : Nat) (hd : Deploy c name) (es : List Event) :
    AggOK c (run c (init c name) es).agg := (reachable_inv3 c name hd es).agg

/-- Non-vacuity: unequal stakes 3,2,2,1,1,0 (quorum 7): votes of 1,2 (stake 5) form nothing, the
vote of 3 crosses the threshold, later votes form nothing more. -/
example :
    let c : Committee := ⟨[(1, 3), (2, 2), (3, 2), (4, 1), (5, 1), (6, 0)]⟩
    let d : Digest := .block 2 1 [] .zero
    let v (k : Nat) : Vote := { hash := d, round := 1, author := k, sig := ⟨k, .vote d 1⟩ }
    let step (a : Aggregator × List Bool) (k : Nat) : Aggregator × List Bool :=
      match a.1.addVote c (v k) with
      | .ok (a', r) => (a', a.2 ++ [r.isSome])
      | .error _ => (a.1, a.2 ++ [false])
    c.quorum = 7 ∧ ([1, 2, 2, 3, 4, 5].foldl step ({}, [])).2 = [false, false, false, true, false, false] := by
  decide

end HS.C19
