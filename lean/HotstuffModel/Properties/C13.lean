import HotstuffModel.Proofs.Reachable
import HotstuffModel.Proofs.MempoolSync
/-!
# C13 — End to end: submitted transactions commit everywhere (PARTIAL: pipeline lemmas)

The general claim is a liveness statement over the whole system.  Proved here: the digest pipeline
inside one node is loss-free, a block with missing batches asks for exactly the missing ones from
its author and resumes exactly when they have all arrived.  Together with C11 (every transaction
is in exactly one sealed batch), C12 (a batch's digest reaches consensus only after a quorum holds
it), C08 and C16 this covers every hand-over of the path client → batch → digest → block →
commit; the end-to-end property itself is explored on the real code by the `netsim` engine
(real mempools + consensus, client transactions to several nodes, one node missing another's
batch broadcasts: every transaction must be in a batch referenced by a block committed at every
node and readable from every store).
-/
namespace HS.C13
open HS Node

/-- A digest handed over by the mempool sits in the proposer's buffer (and its batch in the store). -/
theorem digest_enters_buffer (s : Node) (d : Nat) :
    d ∈ (s.digestStep d).buffer ∧ d ∈ (s.digestStep d).avail := by
  unfold digestStep
  have hav : d ∈ (s.storeBatch d).avail := storeBatch_mem s d
  split
  · rename_i h; exact ⟨by simpa using h, hav⟩
  · exact ⟨by simp, hav⟩

/-- The buffer loses a digest only by putting it into the node's next proposal, or by a `Cleanup`
that names it (sent by `Core` only for digests inside a block it processed). -/
theorem digest_leaves_buffer_only_into_a_block (s : Node) (order : List Nat) (d : Nat)
    (hd : d ∈ s.buffer) :
    d ∈ (s.proposerStep order).buffer ∨
    (∃ r qc tc rest, s.propQ = .make r qc tc :: rest ∧ d ∈ order ∧
      Out.propose (ownBlock s.name r qc tc order) ∈ (s.proposerStep order).hist) ∨
    (∃ ds rest, s.propQ = .cleanup ds :: rest ∧ d ∈ ds) := by
  unfold proposerStep
  split
  · left; exact hd
  · rename_i ds rest hq
    by_cases hds : d ∈ ds
    · right; right; exact ⟨ds, rest, hq, hds⟩
    · left; simp [hd, hds]
  · rename_i r qc tc rest hq
    split
    · left; exact hd
    · rename_i hperm
      right; left
      have hperm' : isPerm order s.buffer = true := by simpa using hperm
      refine ⟨r, qc, tc, rest, hq, ?_, by simp⟩
      -- order is a permutation of the buffer
      simp only [isPerm, Bool.and_eq_true, beq_iff_eq, List.all_eq_true] at hperm'
      apply Classical.byContradiction
      intro hno
      have hc0 : order.count d = 0 := List.count_eq_zero.mpr hno
      have hlen := hperm'.1
      -- counts agree on every element of `order`; a missing element would make the lengths differ
      have hsub : ∀ x, order.count x ≤ s.buffer.count x := by
        intro x
        by_cases hx : x ∈ order
        · have := hperm'.2 x hx; omega
        · rw [List.count_eq_zero.mpr hx]; omega
      have hpos : 0 < s.buffer.count d := List.count_pos_iff.mpr hd
      -- total multiplicity argument via erase
      have key : ∀ (a b : List Nat), (∀ x, a.count x ≤ b.count x) → a.length = b.length →
          ∀ x, a.count x = b.count x := by
        intro a
        induction a with
        | nil =>
          intro b _ hl x
          have : b = [] := List.length_eq_zero_iff.mp hl.symm
          simp [this]
        | cons y a ih =>
          intro b hle hl x
          have hy : y ∈ b := by
            have := hle y; simp at this
            exact List.count_pos_iff.mp (by omega)
          have hle' : ∀ z, a.count z ≤ (b.erase y).count z := by
            intro z
            have := hle z
            rw [List.count_erase]
            by_cases hzy : z = y
            · subst hzy; simp at this ⊢; omega
            · have : (y == z) = false := by simp; exact fun e => hzy e.symm
              simp [List.count_cons, this] at *
              omega
          have hl' : a.length = (b.erase y).length := by
            rw [List.length_erase_of_mem hy]; simp at hl; omega
          have := ih (b.erase y) hle' hl' x
          rw [List.count_cons, this, List.count_erase]
          by_cases hxy : x = y
          · subst hxy
            have := List.count_pos_iff.mpr hy
            simp; omega
          · have h1 : (y == x) = false := by simp; exact fun e => hxy e.symm
            simp [h1]
      have := key order s.buffer hsub hlen d
      omega

/-- A block with missing batches asks the mempool to fetch exactly the missing ones from the
block's author, and is not processed. -/
theorem missing_batches_requested_from_author (s : Node) (b : Block)
    (hmiss : (b.payload.filter fun d => !s.avail.contains d) ≠ []) :
    (s.payloadVerify b).2 = false ∧
    Out.mempoolSync (b.payload.filter fun d => !s.avail.contains d) b.author ∈ (s.payloadVerify b).1.hist := by
  unfold payloadVerify
  simp only []
  have : (b.payload.filter fun d => !s.avail.contains d).isEmpty = false := by
    simpa [List.isEmpty_iff] using hmiss
  simp only [this, Bool.false_eq_true, if_false]
  split <;> simp

/-- The parked block resumes exactly when all awaited batches have been written: not before … -/
theorem no_resume_before_all_batches (c : Committee) (s : Node) (i : Nat) (b : Block) (m : List Nat)
    (hb : s.payPending[i]? = some (b, m)) (hmiss : ∃ d ∈ m, d ∉ s.avail) :
    step c s (.payloadResume i) = s := by
  unfold step
  split
  · rfl
  · have : (m.all fun d => s.avail.contains d) = false := by
      obtain ⟨d, hd, hn⟩ := hmiss
      simp only [List.all_eq_false]
      exact ⟨d, hd, by simpa using hn⟩
    simp only [hb, this, Bool.false_eq_true, if_false]

/-- … and as soon as they all are, it goes back to `Core` through the loop-back queue. -/
theorem resume_when_all_batches_present (c : Committee) (s : Node) (i : Nat) (b : Block) (m : List Nat)
    (hp : s.panic = none) (hb : s.payPending[i]? = some (b, m)) (hall : ∀ d ∈ m, d ∈ s.avail) :
    (step c s (.payloadResume i)).loopQ = s.loopQ ++ [b] := by
  unfold step
  have : (m.all fun d => s.avail.contains d) = true := by
    simp only [List.all_eq_true]; intro d hd; simpa using hall d hd
  simp only [hp, Option.isSome_none, Bool.false_eq_true, if_false, hb, this, if_true]

/-- Non-vacuity: a digest from the mempool ends up in the node's own next proposal. -/
example :
    let c : Committee := ⟨[(1, 1), (2, 1), (3, 1), (4, 1)]⟩
    -- node 2 leads round 1
    let s := run c (init c 2) [.digest 9, .proposer [9]]
    s.buffer = [] ∧ s.hist.any (fun o => match o with | .propose b => b.payload == [9] | _ => false) = true := by
  decide

end HS.C13

/-!
## mempool peer side

Model: `HS.MS` (`Model/MempoolSync.lean`): `Synchronizer`, `Helper`, the `Processor` for received
batches and the receiver dispatch, on one shared store.  `reach cfg es` is the state after the event
list `es` from the initial state.  Every theorem is for EVERY finite event list — frames of the
three kinds, `Synchronize`/`Cleanup` commands with any arguments, timer expiries at any wall-clock
reading and with any pick of peers, waiter completions at any moment, writes to the shared store by
other tasks — and every configuration (committee, `gc_depth`, `sync_retry_delay`,
`sync_retry_nodes`, hash function).

Two things the code does that one might not expect (the model does the same, the examples at the
end exhibit them): the synchronizer never looks into the store, so a `Synchronize` naming a digest
that is already stored requests it again (consensus only names digests it has just found missing,
see `peer_request_is_neither_stored_nor_pending`); and when every digest named is already pending
an EMPTY `BatchRequest` is still sent to the target.
-/
namespace HS.C13
-- `HS.Event`, `HS.Out`, `HS.step`, … (the node model) would shadow the names of `HS.MS` here
export HS.MS (Cfg Event Out State PEntry step run reach outs init lookup)
open HS.MS

/-- (b) `Synchronize(ds, t)` in any reachable state emits exactly one `BatchRequest`, to `t`
(nothing at all if `t` is not in the committee), and it lists exactly the digests of `ds` that
are not already pending — each once, in the order of their first occurrence in `ds`.  Exactly those
digests become pending, stamped with the synchronizer's current round and the wall clock; store and
round do not change. -/
theorem peer_synchronize_requests_exactly_the_new_digests (cfg : Cfg) (es : List Event)
    (ds : List Nat) (t now : Nat) :
    ∃ miss : List Nat,
      (step cfg (reach cfg es) (.synchronize ds t now)).2 =
        (if cfg.members.contains t then [Out.requestTo t miss] else []) ∧
      (∀ d, d ∈ miss ↔ d ∈ ds ∧ d ∉ pendingDigests (reach cfg es).pending) ∧
      miss.Nodup ∧ miss.Sublist ds ∧
      (step cfg (reach cfg es) (.synchronize ds t now)).1.pending =
        (reach cfg es).pending ++ miss.map (fun d => ⟨d, (reach cfg es).round, now⟩) ∧
      (step cfg (reach cfg es) (.synchronize ds t now)).1.store = (reach cfg es).store ∧
      (step cfg (reach cfg es) (.synchronize ds t now)).1.round = (reach cfg es).round :=
  ⟨(register (reach cfg es).round now (reach cfg es).pending ds).2, rfl,
    fun d => mem_register _ _ _ _ d, register_nodup _ _ _ _, register_sublist _ _ _ _,
    register_pending _ _ _ _, rfl, rfl⟩

/-- (b) When consensus names only digests it does not have (it reads the store right before, see
`MempoolDriver::verify`), the request lists exactly the digests that are neither stored nor
pending. -/
theorem peer_request_is_neither_stored_nor_pending (cfg : Cfg) (es : List Event)
    (ds : List Nat) (t now : Nat) (hl : ∀ d ∈ ds, lookup (reach cfg es).store d = none)
    (ht : cfg.members.contains t = true) :
    ∃ miss : List Nat,
      (step cfg (reach cfg es) (.synchronize ds t now)).2 = [Out.requestTo t miss] ∧
      ∀ d, d ∈ miss ↔
        d ∈ ds ∧ lookup (reach cfg es).store d = none ∧ d ∉ pendingDigests (reach cfg es).pending := by
  refine ⟨(register (reach cfg es).round now (reach cfg es).pending ds).2,
    by simp only [step]; rw [if_pos ht], ?_⟩
  intro d
  rw [mem_register]
  exact ⟨fun ⟨h1, h2⟩ => ⟨h1, hl d h1, h2⟩, fun ⟨h1, _, h2⟩ => ⟨h1, h2⟩⟩

/-- (c) One step of `pending`, exactly: an entry is pending after an event iff it was pending
before and the event did not remove it — only the completion of its own waiter, possible only once
the batch is in the store, and a `Cleanup(r)` with `r ≥ gc_depth` and `entry round + gc_depth ≤ r`
remove entries — or the event is a `Synchronize` naming its digest while that digest was not
pending. -/
theorem peer_pending_step_by_step (cfg : Cfg) (es : List Event) (e : Event) (x : PEntry) :
    x ∈ (reach cfg (es ++ [e])).pending ↔
      (x ∈ (reach cfg es).pending ∧ ¬ removed cfg (reach cfg es) e x) ∨ added (reach cfg es) e x := by
  rw [reach_snoc]; exact mem_pending_step cfg _ e x

/-- (c) Pending ⇒ requested and not cleared since: every entry of `pending` was put there by a
`Synchronize` event of the run that named its digest while it was not pending (so that event sent
the request for it, see (b)), carries that event's wall clock and the round of that moment, and
has been in `pending` after every event since. -/
theorem peer_pending_has_an_open_request (cfg : Cfg) (es : List Event) (x : PEntry)
    (h : x ∈ (reach cfg es).pending) :
    ∃ es1 ds t es2,
      es = es1 ++ Event.synchronize ds t x.ts :: es2 ∧
      x.digest ∈ ds ∧ x.digest ∉ pendingDigests (reach cfg es1).pending ∧
      x.round = (reach cfg es1).round ∧
      ∀ k, k ≤ es2.length →
        x ∈ (reach cfg (es1 ++ Event.synchronize ds t x.ts :: es2.take k)).pending :=
  pending_origin cfg es x h

/-- (c) Requested and not cleared since ⇒ pending: after a `Synchronize` naming `d`, `d` is pending
for as long as neither its waiter completes nor a `Cleanup` arrives. -/
theorem peer_open_request_stays_pending (cfg : Cfg) (es1 es2 : List Event) (ds : List Nat)
    (t now d : Nat) (hd : d ∈ ds) (hc : ∀ e ∈ es2, clears d e = false) :
    d ∈ pendingDigests (reach cfg (es1 ++ Event.synchronize ds t now :: es2)).pending := by
  have : es1 ++ Event.synchronize ds t now :: es2 = (es1 ++ [Event.synchronize ds t now]) ++ es2 := by
    simp
  rw [this, reach_append]
  apply pending_preserved_run _ _ _ _ _ hc
  rw [reach_snoc]
  exact pending_after_synchronize cfg _ ds t now d hd

/-- (c) Nothing is requested twice while pending: a `Synchronize` never lists a digest that is
pending … -/
theorem peer_no_second_request_while_pending (cfg : Cfg) (es : List Event) (ds : List Nat)
    (t now d : Nat) (hp : d ∈ pendingDigests (reach cfg es).pending) (t' : Nat) (m : List Nat)
    (ho : Out.requestTo t' m ∈ (step cfg (reach cfg es) (.synchronize ds t now)).2) : d ∉ m := by
  simp only [step] at ho
  split at ho
  · simp only [List.mem_singleton, Out.requestTo.injEq] at ho
    rw [ho.2]
    intro hm
    exact ((mem_register _ _ _ _ _).mp hm).2 hp
  · simp at ho

/-- … so between two requests for the same digest (by `Synchronize`) there is always the completion
of its waiter or a `Cleanup`. -/
theorem peer_second_request_needs_a_clear (cfg : Cfg) (es1 es2 : List Event) (ds1 ds2 : List Nat)
    (t1 n1 t2 n2 d : Nat) (h1 : d ∈ ds1) (t' : Nat) (m : List Nat)
    (ho : Out.requestTo t' m ∈
      (step cfg (reach cfg (es1 ++ Event.synchronize ds1 t1 n1 :: es2)) (.synchronize ds2 t2 n2)).2)
    (hm : d ∈ m) : ∃ e ∈ es2, clears d e = true := by
  by_cases hall : es2.all (fun e => !clears d e) = true
  · exfalso
    have hc : ∀ e ∈ es2, clears d e = false := by
      intro e he
      have := List.all_eq_true.mp hall e he
      simpa using this
    exact peer_no_second_request_while_pending cfg _ ds2 t2 n2 d
      (peer_open_request_stays_pending cfg es1 es2 ds1 t1 n1 d h1 hc) t' m ho hm
  · have : es2.all (fun e => !clears d e) = false := by simpa using hall
    obtain ⟨e, he, hce⟩ := List.all_eq_false.mp this
    exact ⟨e, he, by simpa using hce⟩

/-- (d) The timer: in any reachable state it changes nothing, and it emits one retry request iff
some pending entry is older than the delay (`timestamp + sync_retry_delay < now`); the request
carries exactly the digests of those entries, and goes to `min(sync_retry_nodes, n - 1)` members
of the committee other than the node itself. -/
theorem peer_retry_exactly_the_overdue (cfg : Cfg) (es : List Event) (now : Nat) (peers : List Nat) :
    step cfg (reach cfg es) (.timer now peers) =
      (reach cfg es,
        if (due cfg (reach cfg es).pending now).isEmpty then []
        else [.retryTo (pick cfg peers) (due cfg (reach cfg es).pending now)]) ∧
    (∀ d, d ∈ due cfg (reach cfg es).pending now ↔
      ∃ x ∈ (reach cfg es).pending, x.digest = d ∧ x.ts + cfg.retryDelay < now) ∧
    (∀ p ∈ pick cfg peers, p ∈ cfg.members ∧ p ≠ cfg.name) ∧
    (pick cfg peers).length = min cfg.retryNodes (others cfg).length := by
  refine ⟨?_, fun d => mem_due cfg _ now d, (pick_legal cfg peers).1, (pick_legal cfg peers).2⟩
  simp only [step]
  split <;> rfl

/-- (d) A retry happens only for digests pending longer than the delay: every digest in a retry
was named by a `Synchronize` handled at wall clock `ts` with `ts + sync_retry_delay < now`, was not
pending then, and has been pending ever since. -/
theorem peer_retry_only_after_the_delay (cfg : Cfg) (es : List Event) (now : Nat) (peers ps ds : List Nat)
    (ho : Out.retryTo ps ds ∈ (step cfg (reach cfg es) (.timer now peers)).2) (d : Nat) (hd : d ∈ ds) :
    ∃ es1 dsr t ts es2,
      es = es1 ++ Event.synchronize dsr t ts :: es2 ∧ ts + cfg.retryDelay < now ∧
      d ∈ dsr ∧ d ∉ pendingDigests (reach cfg es1).pending ∧
      ∀ k, k ≤ es2.length →
        d ∈ pendingDigests (reach cfg (es1 ++ Event.synchronize dsr t ts :: es2.take k)).pending := by
  rw [(peer_retry_exactly_the_overdue cfg es now peers).1] at ho
  simp only at ho
  split at ho
  · simp at ho
  · simp only [List.mem_singleton, Out.retryTo.injEq] at ho
    rw [ho.2] at hd
    obtain ⟨x, hx, hxd, hts⟩ := (mem_due cfg _ now d).mp hd
    obtain ⟨es1, dsr, t, es2, he, h1, h2, _, h4⟩ := pending_origin cfg es x hx
    subst hxd
    refine ⟨es1, dsr, t, x.ts, es2, he, hts, h1, h2, ?_⟩
    intro k hk
    simp only [pendingDigests, List.mem_map]
    exact ⟨x, h4 k hk, rfl⟩

/-- (d) … and it misses none: an entry older than the delay is in the retry the timer emits. -/
theorem peer_retry_carries_every_overdue_digest (cfg : Cfg) (es : List Event) (now : Nat)
    (peers : List Nat) (x : PEntry) (hx : x ∈ (reach cfg es).pending)
    (hts : x.ts + cfg.retryDelay < now) :
    ∃ ds, (step cfg (reach cfg es) (.timer now peers)).2 = [.retryTo (pick cfg peers) ds] ∧
      x.digest ∈ ds := by
  have hm : x.digest ∈ due cfg (reach cfg es).pending now := (mem_due cfg _ now _).mpr ⟨x, hx, rfl, hts⟩
  refine ⟨due cfg (reach cfg es).pending now, ?_, hm⟩
  rw [(peer_retry_exactly_the_overdue cfg es now peers).1]
  have : (due cfg (reach cfg es).pending now).isEmpty = false := by
    cases hd : due cfg (reach cfg es).pending now with
    | nil => rw [hd] at hm; simp at hm
    | cons a l => rfl
  simp [this]

/-- (e) The waiter of a digest can complete only when the batch is in the store: before that the
event changes nothing; once it is, the entry leaves `pending` (all other entries stay). -/
theorem peer_stored_batch_leaves_pending (cfg : Cfg) (es : List Event) (d : Nat) :
    (lookup (reach cfg es).store d = none →
      step cfg (reach cfg es) (.batchStored d) = (reach cfg es, [])) ∧
    (∀ v, lookup (reach cfg es).store d = some v →
      d ∉ pendingDigests (reach cfg (es ++ [.batchStored d])).pending ∧
      ∀ x, x.digest ≠ d → (x ∈ (reach cfg (es ++ [.batchStored d])).pending ↔ x ∈ (reach cfg es).pending)) := by
  refine ⟨fun h => by simp [step, h], ?_⟩
  intro v hv
  rw [reach_snoc]
  simp only [step, hv, pendingDigests, List.mem_map, List.mem_filter, bne_iff_ne, ne_eq, not_exists,
    not_and]
  refine ⟨fun x hx hd => hx.2 hd, fun x hx => ⟨fun h => h.1, fun h => ⟨h, hx⟩⟩⟩

/-- (e) A batch frame followed by the completion of the waiter: its digest is not pending
any more, whatever happened before. -/
theorem peer_received_batch_clears_its_request (cfg : Cfg) (es : List Event) (b : Nat) :
    cfg.hash b ∉ pendingDigests (reach cfg (es ++ [.batchFrame b, .batchStored (cfg.hash b)])).pending := by
  have h : es ++ [Event.batchFrame b, Event.batchStored (cfg.hash b)] =
      (es ++ [Event.batchFrame b]) ++ [Event.batchStored (cfg.hash b)] := by simp
  rw [h]
  have hl : lookup (reach cfg (es ++ [Event.batchFrame b])).store (cfg.hash b) = some b := by
    rw [reach_snoc]; simp [step, lookup]
  exact ((peer_stored_batch_leaves_pending cfg _ (cfg.hash b)).2 b hl).1

/-- (e) … so the retries for it stop: once the waiter of a stored digest has completed, no later
timer expiry re-requests that digest, unless consensus asks for it again. -/
theorem peer_retries_stop_once_stored (cfg : Cfg) (es1 es2 : List Event) (d v : Nat)
    (hv : lookup (reach cfg es1).store d = some v)
    (hs : ∀ ds t n, Event.synchronize ds t n ∈ es2 → d ∉ ds)
    (now : Nat) (peers ps ds : List Nat)
    (ho : Out.retryTo ps ds ∈
      (step cfg (reach cfg (es1 ++ Event.batchStored d :: es2)) (.timer now peers)).2) : d ∉ ds := by
  have hnp : d ∉ pendingDigests (reach cfg (es1 ++ Event.batchStored d :: es2)).pending := by
    have : es1 ++ Event.batchStored d :: es2 = (es1 ++ [Event.batchStored d]) ++ es2 := by simp
    rw [this, reach_append]
    exact not_pending_preserved_run cfg _ es2 d ((peer_stored_batch_leaves_pending cfg es1 d).2 v hv).1 hs
  rw [(peer_retry_exactly_the_overdue cfg _ now peers).1] at ho
  simp only at ho
  split at ho
  · simp at ho
  · simp only [List.mem_singleton, Out.retryTo.injEq] at ho
    rw [ho.2]
    intro hm
    obtain ⟨x, hx, hxd, _⟩ := (mem_due cfg _ now d).mp hm
    exact hnp (by simp only [pendingDigests, List.mem_map]; exact ⟨x, hx, hxd⟩)

/-- (f) The helper: a `BatchRequest(ds, origin)` is ACKed and changes nothing; if `origin` is in the
committee the replies are, for each requested digest in request order, the bytes the store holds
under it — the value of the last write to that key in the run — and nothing for digests that were
never written; if `origin` is not in the committee there is no reply at all. -/
theorem peer_helper_replies_with_the_stored_bytes (cfg : Cfg) (es : List Event) (ds : List Nat)
    (origin : Nat) :
    step cfg (reach cfg es) (.batchRequest ds origin) =
      (reach cfg es,
        .ack :: (if cfg.members.contains origin
                 then (ds.filterMap (fun d => lastWrite cfg d es)).map (Out.reply origin) else [])) := by
  have : (fun d => lastWrite cfg d es) = lookup (reach cfg es).store := by
    funext d; exact (lookup_reach cfg es d).symm
  rw [this]
  simp only [step]
  split
  · rw [replies_eq]
  · rfl

/-- Non-vacuity and the two surprises.  Committee 1–4, node 1, gc_depth 2, delay 5, 2 retry
nodes, hash = +100.  `Synchronize([107,108,107], 3)` at wall clock 10 requests `[107,108]` from 3;
naming them again (with 109) requests only `[109]`, naming only pending ones sends an EMPTY
request; at wall clock 15 nothing is overdue, at 16 the first two are; the batch with id 7
arrives and its waiter completes: 107 is gone from the next retry; `Cleanup(3)` drops the entries
made in round ≤ 1 (all of them: they were made in round 0); a `Synchronize` naming the now STORED
107 requests it again; the helper answers 107 (stored), skips 108, ignores a stranger. -/
example :
    let cfg : Cfg := { name := 1, members := [1, 2, 3, 4], gcDepth := 2, retryDelay := 5, retryNodes := 2,
                       hash := fun b => b + 100 }
    outs cfg [.synchronize [107, 108, 107] 3 10, .synchronize [108, 109, 107] 4 11,
              .synchronize [108] 2 11, .synchronize [110] 9 11,
              .timer 15 [2, 3], .timer 16 [2, 3], .batchFrame 7, .batchStored 107, .batchStored 108,
              .timer 17 [4, 2], .cleanup 1, .cleanup 3, .timer 99 [2, 3],
              .synchronize [107] 3 100, .batchRequest [107, 108, 107] 2, .batchRequest [107] 9, .garbage]
      = [.requestTo 3 [107, 108], .requestTo 4 [109], .requestTo 2 [],
         .retryTo [2, 3] [107, 108],
         .ack, .stored 107 7, .digestToConsensus 107,
         .retryTo [4, 2] [108, 109, 110],
         .requestTo 3 [107],
         .ack, .reply 2 7, .reply 2 7, .ack, .ack] := by
  decide

end HS.C13
