import HotstuffModel.Proofs.Reachable
/-!
# C13 — End to end: submitted transactions commit everywhere (PARTIAL: pipeline lemmas)

The general claim is a liveness statement over the whole system.  Proved here: the digest pipeline
inside one node is loss-free, a block with missing batches asks for exactly the missing ones from
its author and resumes exactly when they have all arrived.  Together with C11 (every transaction
is in exactly one sealed batch), C12 (a batch's digest reaches consensus only after a quorum holds
it), C08 and C16 this covers every hand-over of the path client → batch → digest → block →
commit; the end-to-end property itself is explored on the real code by the `netsim` engine
(real mempools + consensus, client transactions to several nodes, one node missing another's
batch broadcasts: every transaction must be in a batch referenced by a block committed at every
node and readable from every store).
-/
namespace HS.C13
open HS Node

/-- A digest handed over by the mempool sits in the proposer's buffer (and its batch in the store). -/
theorem digest_enters_buffer (s : Node) (d : Nat) :
    d ∈ (s.digestStep d).buffer ∧ d ∈ (s.digestStep d).avail := by
  unfold digestStep
  have hav : d ∈ (s.storeBatch d).avail := storeBatch_mem s d
  split
  · rename_i h; exact ⟨by simpa using h, hav⟩
  · exact ⟨by simp, hav⟩

/-- The buffer loses a digest only by putting it into the node's next proposal, or by a `Cleanup`
that names it (sent by `Core` only for digests inside a block it processed). -/
theorem digest_leaves_buffer_only_into_a_block (s : Node) (order : List Nat) (d : Nat)
    (hd : d ∈ s.buffer) :
    d ∈ (s.proposerStep order).buffer ∨
    (∃ r qc tc rest, s.propQ = .make r qc tc :: rest ∧ d ∈ order ∧
      Out.propose (ownBlock s.name r qc tc order) ∈ (s.proposerStep order).hist) ∨
    (∃ ds rest, s.propQ = .cleanup ds :: rest ∧ d ∈ ds) := by
  unfold proposerStep
  split
  · left; exact hd
  · rename_i ds rest hq
    by_cases hds : d ∈ ds
    · right; right; exact ⟨ds, rest, hq, hds⟩
    · left; simp [hd, hds]
  · rename_i r qc tc rest hq
    split
    · left; exact hd
    · rename_i hperm
      right; left
      have hperm' : isPerm order s.buffer = true := by simpa using hperm
      refine ⟨r, qc, tc, rest, hq, ?_, by simp⟩
      -- order is a permutation of the buffer
      simp only [isPerm, Bool.and_eq_true, beq_iff_eq, List.all_eq_true] at hperm'
      apply Classical.byContradiction
      intro hno
      have hc0 : order.count d = 0 := List.count_eq_zero.mpr hno
      have hlen := hperm'.1
      -- counts agree on every element of `order`; a missing element would make the lengths differ
      have hsub : ∀ x, order.count x ≤ s.buffer.count x := by
        intro x
        by_cases hx : x ∈ order
        · have := hperm'.2 x hx; omega
        · rw [List.count_eq_zero.mpr hx]; omega
      have hpos : 0 < s.buffer.count d := List.count_pos_iff.mpr hd
      -- total multiplicity argument via erase
      have key : ∀ (a b : List Nat), (∀ x, a.count x ≤ b.count x) → a.length = b.length →
          ∀ x, a.count x = b.count x := by
        intro a
        induction a with
        | nil =>
          intro b _ hl x
          have : b = [] := List.length_eq_zero_iff.mp hl.symm
          simp [this]
        | cons y a ih =>
          intro b hle hl x
          have hy : y ∈ b := by
            have := hle y; simp at this
            exact List.count_pos_iff.mp (by omega)
          have hle' : ∀ z, a.count z ≤ (b.erase y).count z := by
            intro z
            have := hle z
            rw [List.count_erase]
            by_cases hzy : z = y
            · subst hzy; simp at this ⊢; omega
            · have : (y == z) = false := by simp; exact fun e => hzy e.symm
              simp [List.count_cons, this] at *
              omega
          have hl' : a.length = (b.erase y).length := by
            rw [List.length_erase_of_mem hy]; simp at hl; omega
          have := ih (b.erase y) hle' hl' x
          rw [List.count_cons, this, List.count_erase]
          by_cases hxy : x = y
          · subst hxy
            have := List.count_pos_iff.mpr hy
            simp; omega
          · have h1 : (y == x) = false := by simp; exact fun e => hxy e.symm
            simp [h1]
      have := key order s.buffer hsub hlen d
      omega

/-- A block with missing batches asks the mempool to fetch exactly the missing ones from the
block's author, and is not processed. -/
theorem missing_batches_requested_from_author (s : Node) (b : Block)
    (hmiss : (b.payload.filter fun d => !s.avail.contains d) ≠ []) :
    (s.payloadVerify b).2 = false ∧
    Out.mempoolSync (b.payload.filter fun d => !s.avail.contains d) b.author ∈ (s.payloadVerify b).1.hist := by
  unfold payloadVerify
  simp only []
  have : (b.payload.filter fun d => !s.avail.contains d).isEmpty = false := by
    simpa [List.isEmpty_iff] using hmiss
  simp only [this, Bool.false_eq_true, if_false]
  split <;> simp

/-- The parked block resumes exactly when all awaited batches have been written: not before … -/
theorem no_resume_before_all_batches (c : Committee) (s : Node) (i : Nat) (b : Block) (m : List Nat)
    (hb : s.payPending[i]? = some (b, m)) (hmiss : ∃ d ∈ m, d ∉ s.avail) :
    step c s (.payloadResume i) = s := by
  unfold step
  split
  · rfl
  · have : (m.all fun d => s.avail.contains d) = false := by
      obtain ⟨d, hd, hn⟩ := hmiss
      simp only [List.all_eq_false]
      exact ⟨d, hd, by simpa using hn⟩
    simp only [hb, this, Bool.false_eq_true, if_false]

/-- … and as soon as they all are, it goes back to `Core` through the loop-back queue. -/
theorem resume_when_all_batches_present (c : Committee) (s : Node) (i : Nat) (b : Block) (m : List Nat)
    (hp : s.panic = none) (hb : s.payPending[i]? = some (b, m)) (hall : ∀ d ∈ m, d ∈ s.avail) :
    (step c s (.payloadResume i)).loopQ = s.loopQ ++ [b] := by
  unfold step
  have : (m.all fun d => s.avail.contains d) = true := by
    simp only [List.all_eq_true]; intro d hd; simpa using hall d hd
  simp only [hp, Option.isSome_none, Bool.false_eq_true, if_false, hb, this, if_true]

/-- Non-vacuity: a digest from the mempool ends up in the node's own next proposal. -/
example :
    let c : Committee := ⟨[(1, 1), (2, 1), (3, 1), (4, 1)]⟩
    -- node 2 leads round 1
    let s := run c (init c 2) [.digest 9, .proposer [9]]
    s.buffer = [] ∧ s.hist.any (fun o => match o with | .propose b => b.payload == [9] | _ => false) = true := by
  decide

end HS.C13
