import HotstuffModel.Proofs.Commit
import HotstuffModel.Proofs.Reachable
import HotstuffModel.Proofs.GlobalCommit
import HotstuffModel.Proofs.PrefixLogs
/-!
# C02 — Each node delivers committed blocks exactly once, in chain order

What ONE node guarantees on its own, for EVERY event list (any chain shape, any learning order):
the genesis placeholder is never delivered; each call of `commit` delivers a parent-linked run of
stored blocks, oldest first, ending in the head of the 2-chain, every one above the watermark
`last_committed_round` as it was before the call; the run attaches at the watermark (its first
block has round watermark+1, or its parent is at or below the watermark); the watermark only grows.
That the attachment point IS the previously delivered block, and that rounds grow along the chain —
hence no duplicates and no skipped block over the whole life of the node — needs agreement among
the honest nodes (certified blocks extend each other: `HS.C01.agreement`).  That composition is the
second half of this file: `delivery_log_is_chain_from_genesis` and its corollaries, for every
reachable state of the global model (any number of Byzantine nodes of total stake ≤ f, any schedule).
On the real code the same is checked by the monitor of the cons/netsim engines.
-/
namespace HS.C02
open HS Node

/-- The genesis placeholder (round 0) is never delivered. -/
theorem genesis_never_delivered (c : Committee) (name : Nat) (hd : Deploy c name) (es : List Event)
    (x : Block) (hx : Out.commit x ∈ (run c (init c name) es).hist) :
    0 < x.round ∧ x ≠ Block.genesis := by
  have := ((reachable_inv5 c name hd rfl es).commits x hx).1
  refine ⟨this, ?_⟩
  intro e; subst e; simp [Block.genesis] at this

/-- One call of `commit(b)` in any reachable state: the deliveries `D` (oldest first) are appended
to the commit channel in that order, are parent-linked, end in `b`, lie strictly above the old
watermark, never contain genesis, attach at the watermark, and move the watermark to `b.round`. -/
theorem commit_call_delivers_linked_chain (c : Committee) (name : Nat) (hd : Deploy c name)
    (es : List Event) (b : Block)
    (hb : b = Block.genesis ∨ ∃ d, (d, b) ∈ (run c (init c name) es).store)
    (hlt : (run c (init c name) es).lastCommitted < b.round)
    (hok : (commit c (run c (init c name) es) b).2 = true) :
    let s := run c (init c name) es
    ∃ D : List Block,
      (commit c s b).1.hist = (D.reverse.map Out.commit) ++ s.hist ∧
      (commit c s b).1.lastCommitted = b.round ∧
      Linked D ∧ D.getLast? = some b ∧
      (∀ x ∈ D, s.lastCommitted < x.round ∧ x ≠ Block.genesis) ∧
      ∃ first rest, D = first :: rest ∧
        (first.round = s.lastCommitted + 1 ∨ ∃ p, IsParent p first ∧ p.round ≤ s.lastCommitted) :=
  commit_spec c _ (reachable_inv4 c name hd rfl es) b hb hlt hok

/-- A block at or below the watermark is never delivered again by `commit`. -/
theorem commit_at_or_below_watermark_is_noop (c : Committee) (s : Node) (b : Block)
    (h : b.round ≤ s.lastCommitted) : commit c s b = (s, true) := by
  unfold commit; simp [h]

/-- The watermark never decreases. -/
theorem watermark_monotone (c : Committee) (s : Node) (es : List Event) :
    s.lastCommitted ≤ (run c s es).lastCommitted := (ext_run c s es).lc

/-- The commit channel is append-only: deliveries are never retracted or reordered. -/
theorem deliveries_append_only (c : Committee) (s : Node) (es : List Event) :
    ∃ new, (run c s es).hist = new ++ s.hist := by
  obtain ⟨new, h, _⟩ := (ext_run c s es).hist
  exact ⟨new, h⟩

/-- Non-vacuity (the chain shape that broke the code before the `fix:` commit 9270584): rounds
2, 3, 4 on top of genesis — round 1 timed out, block 2 carries a TC — deliver exactly block 2,
not genesis. -/
example :
    let c : Committee := ⟨[(1, 1), (2, 1), (3, 1), (4, 1)]⟩
    let tc : TC := { round := 1, votes := [(1, ⟨1, .timeout 1 0⟩, 0), (2, ⟨2, .timeout 1 0⟩, 0), (3, ⟨3, .timeout 1 0⟩, 0)] }
    let mk (a r : Nat) (q : QC) (t : Option TC) : Block :=
      { qc := q, tc := t, author := a, round := r, payload := [], sig := ⟨a, .block (.block a r [] q.hash)⟩ }
    let cert (b : Block) : QC :=
      { hash := b.digest, round := b.round, votes := [(1, ⟨1, .vote b.digest b.round⟩), (2, ⟨2, .vote b.digest b.round⟩), (3, ⟨3, .vote b.digest b.round⟩)] }
    let b2 := mk 3 2 QC.genesis (some tc)
    let b3 := mk 4 3 (cert b2) none
    let b4 := mk 1 4 (cert b3) none
    let s := run c (init c 2) [.msg (.propose b2), .msg (.propose b3), .msg (.propose b4)]
    s.hist.filter Out.isCommitOut = [.commit b2] ∧ s.lastCommitted = 2 := by
  decide

/-! ## The whole life of a node (global model) -/

/-- **C02.**  In every reachable state of the global model, the delivery log of every honest node,
read oldest first, is its committed chain from genesis: the first delivered block's parent is the
genesis placeholder, and each later block's parent is the block delivered immediately before it
(`Linked`: `y.qc.hash = x.digest` for consecutive `x, y`). -/
theorem delivery_log_is_chain_from_genesis (X : World) (G : GState) (hR : Reach X G)
    (i : Nat) (hi : X.honest i) : ChainFromGenesis (commitsOf (G i).hist).reverse :=
  (reach_goodLog X G hR i hi).1

/-- The watermark `last_committed_round` is the round of the newest delivery (0 before the first). -/
theorem watermark_is_last_delivery (X : World) (G : GState) (hR : Reach X G)
    (i : Nat) (hi : X.honest i) :
    (G i).lastCommitted = ((commitsOf (G i).hist).head?.map (·.round)).getD 0 :=
  (reach_goodLog X G hR i hi).2

/-- Rounds strictly increase along a parent-linked list of certified blocks … -/
theorem linked_rounds_increase (X : World) (G : GState) (hR : Reach X G) :
    ∀ (D : List Block), Linked D →
      (∀ x ∈ D, Abs.Certified (absCtx X) (absHist X G) x.digest) →
      D.Pairwise (fun x y => x.round < y.round) := by
  intro D
  induction D with
  | nil => intro _ _; exact List.Pairwise.nil
  | cons x D ih =>
    intro hl hc
    cases D with
    | nil => exact List.pairwise_singleton _ _
    | cons y D' =>
      have hl' : y.qc.hash = x.digest ∧ Linked (y :: D') := hl
      have ihp := ih hl'.2 (fun z hz => hc z (List.mem_cons_of_mem _ hz))
      have hxy : x.round < y.round := by
        have := (Abs.certified_parent (absCtx X) (absHist X G) Digest.zero (reach_localInv X G hR)
          (hc y (by simp))).1
        simp only [absHist, dParent_block, dRound_block, hl'.1] at this
        simpa [Block.digest, dRound] using this
      refine List.Pairwise.cons ?_ ihp
      intro z hz
      rcases List.mem_cons.mp hz with rfl | hz'
      · exact hxy
      · have := (List.pairwise_cons.mp ihp).1 z hz'
        omega

/-- … so no block is delivered twice and deliveries come in strictly increasing round order. -/
theorem deliveries_strictly_increasing_no_duplicates (X : World) (G : GState) (hR : Reach X G)
    (i : Nat) (hi : X.honest i) :
    (commitsOf (G i).hist).reverse.Pairwise (fun x y => x.round < y.round) ∧
    (commitsOf (G i).hist).Nodup := by
  have hchain := delivery_log_is_chain_from_genesis X G hR i hi
  have hl : Linked (commitsOf (G i).hist).reverse := by
    cases h : (commitsOf (G i).hist).reverse with
    | nil => trivial
    | cons x l => rw [h] at hchain; exact hchain.2
  have hp := linked_rounds_increase X G hR _ hl (by
    intro x hx
    exact delivered_is_certified X G hR i hi x (mem_commitsOf.mp (List.mem_reverse.mp hx)))
  refine ⟨hp, ?_⟩
  have : (commitsOf (G i).hist).reverse.Nodup :=
    hp.imp (fun {a b} (h : a.round < b.round) => by intro e; subst e; omega)
  exact (List.pairwise_reverse.mp this).imp (fun h => Ne.symm h)

/-- All honest nodes deliver the SAME sequence: their delivery logs (by block digest, oldest
first) are prefixes of one another in every reachable global state. -/
theorem delivery_logs_prefix_consistent (X : World) (G : GState) (hR : Reach X G) (i j : Nat)
    (hi : X.honest i) (hj : X.honest j) :
    (commitsOf (G i).hist).reverse.map Block.digest <+: (commitsOf (G j).hist).reverse.map Block.digest ∨
    (commitsOf (G j).hist).reverse.map Block.digest <+: (commitsOf (G i).hist).reverse.map Block.digest :=
  logs_prefix_consistent X G hR i j hi hj

end HS.C02
