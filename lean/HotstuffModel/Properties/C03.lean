import HotstuffModel.Proofs.Ordering
import HotstuffModel.Proofs.WireVotes
/-!
# C03 — Voting safety: one vote per round, none after timeout, only safe extensions

`Out.voted b` is recorded by the model exactly where `Core::make_vote` requests the signature of a
vote for `b` (wire votes and the self-vote as next leader alike); `Out.timeout t` exactly where
`local_timeout_round` signs a timeout.  The history `hist` is newest first: in
`h1 ++ x :: h2` everything in `h2` happened before `x`.

All theorems hold for EVERY finite event list from the initial state — any messages (valid or
not, any signatures, any rounds), in any order, interleaved with timer expiries, loop-backs,
sync/payload resumptions — and every committee.
-/
namespace HS.C03
open HS Node

/-- Vote rounds strictly increase over time. -/
theorem vote_rounds_strictly_increase (c : Committee) (name : Nat) (es : List Event)
    (h1 h2 : List Out) (b : Block)
    (hh : (run c (init c name) es).hist = h1 ++ .voted b :: h2) :
    ∀ b', Out.voted b' ∈ h2 → b'.round < b.round := by
  have := (reachable_inv c name es).2.votes
  rw [hh] at this
  exact (votesOrd_split this).1

/-- At most one vote per round: two votes signed at different times are for different rounds. -/
theorem at_most_one_vote_per_round (c : Committee) (name : Nat) (es : List Event)
    (h1 h2 : List Out) (b b' : Block)
    (hh : (run c (init c name) es).hist = h1 ++ .voted b :: h2) (hb' : Out.voted b' ∈ h2) :
    b'.round ≠ b.round := by
  have := vote_rounds_strictly_increase c name es h1 h2 b hh b' hb'
  omega

/-- Never a vote in a round for which a timeout was already issued (nor in a lower one). -/
theorem no_vote_after_timeout (c : Committee) (name : Nat) (es : List Event)
    (h1 h2 : List Out) (b : Block) (t : Timeout)
    (hh : (run c (init c name) es).hist = h1 ++ .voted b :: h2) (ht : Out.timeout t ∈ h2) :
    t.round < b.round := by
  have := (reachable_inv c name es).2.votes
  rw [hh] at this
  exact (votesOrd_split this).2 t ht

/-- Every block voted for carries a QC of the immediately preceding round, or a TC of the
preceding round none of whose reported high-QC rounds exceeds the round of the block's own QC;
in both cases the block's QC is of a lower round than the block. -/
theorem voted_block_is_safe_extension (c : Committee) (name : Nat) (es : List Event) (b : Block)
    (hb : Out.voted b ∈ (run c (init c name) es).hist) :
    (b.qc.round + 1 = b.round ∨
      ∃ tc, b.tc = some tc ∧ tc.round + 1 = b.round ∧ ∀ x ∈ tc.highQcRounds, x ≤ b.qc.round) ∧
    b.qc.round < b.round := by
  have := (reachable_inv c name es).1.voted b hb
  exact ⟨this.2.2.1, this.2.1⟩

/-- The bookkeeping behind it: the node's `last_voted_round` dominates every vote and timeout
it has signed, and never exceeds its current round. -/
theorem last_voted_round_dominates (c : Committee) (name : Nat) (es : List Event) :
    let s := run c (init c name) es
    (∀ b, Out.voted b ∈ s.hist → b.round ≤ s.lastVoted) ∧
    (∀ t, Out.timeout t ∈ s.hist → t.round ≤ s.lastVoted) ∧ s.lastVoted ≤ s.round := by
  intro s
  have := (reachable_inv c name es).1
  exact ⟨fun b hb => (this.voted b hb).1, fun t ht => (this.touts t ht).1, this.lv_le⟩

/-! ## On the wire

The theorems above are about the record `voted b` left where `make_vote` signs.  These tie the
vote MESSAGES (`Out.vote to v`: sent to the next leader; `Out.selfVote v`: handled locally when
the node leads the next round) to those records. -/

/-- The vote carried by a vote output. -/
def voteOfOut : Out → Option Vote
  | .vote _ v => some v
  | .selfVote v => some v
  | _ => none

theorem run_name (c : Committee) (name : Nat) (es : List Event) :
    (run c (init c name) es).name = name := by
  rw [(ext_run c (init c name) es).name]
  unfold init; simp only []; split <;> rfl

/-- Every vote message is the vote — signed by the node, for the block's digest and round — for a
block recorded by `make_vote` immediately before, and goes to the leader of the next round. -/
theorem wire_vote_is_for_voted_block (c : Committee) (name : Nat) (es : List Event)
    (h1 h2 : List Out) (o : Out) (v : Vote) (ho : voteOfOut o = some v)
    (hh : (run c (init c name) es).hist = h1 ++ o :: h2) :
    ∃ b r, h2 = .voted b :: r ∧ v = voteFor name b ∧
      (∀ to, o = .vote to v → to = c.leader (b.round + 1) ∧ to ≠ name) ∧
      (o = .selfVote v → name = c.leader (b.round + 1)) := by
  have hw := reachable_wire c name es
  rw [run_name, hh] at hw
  have hw2 := wireOK_suffix c name h1 _ hw
  cases o <;> simp [voteOfOut] at ho
  · rename_i to v'
    subst ho
    obtain ⟨⟨b, r, e1, e2, e3, e4⟩, _⟩ := hw2
    refine ⟨b, r, e1, e2, ?_, ?_⟩
    · intro to' h; cases h; exact ⟨e3, e4⟩
    · intro h; cases h
  · rename_i v'
    subst ho
    obtain ⟨⟨b, r, e1, e2, e3⟩, _⟩ := hw2
    refine ⟨b, r, e1, e2, ?_, ?_⟩
    · intro to' h; cases h
    · intro _; exact e3

/-- Vote messages carry strictly increasing rounds: at most one vote message per round, ever. -/
theorem wire_vote_rounds_strictly_increase (c : Committee) (name : Nat) (es : List Event)
    (h1 h2 : List Out) (o o' : Out) (v v' : Vote)
    (ho : voteOfOut o = some v) (ho' : voteOfOut o' = some v')
    (hh : (run c (init c name) es).hist = h1 ++ o :: h2) (hmem : o' ∈ h2) :
    v'.round < v.round := by
  obtain ⟨b, r, e1, e2, _, _⟩ := wire_vote_is_for_voted_block c name es h1 h2 o v ho hh
  subst e1
  have hr : o' ∈ r := by
    rcases List.mem_cons.mp hmem with h | h
    · subst h; simp [voteOfOut] at ho'
    · exact h
  obtain ⟨r1, r2, er⟩ := List.append_of_mem hr
  have hh' : (run c (init c name) es).hist = (h1 ++ o :: .voted b :: r1) ++ o' :: r2 := by
    rw [hh, er]; simp
  obtain ⟨b', r3, e1', e2', _, _⟩ := wire_vote_is_for_voted_block c name es _ r2 o' v' ho' hh'
  have hvb : (run c (init c name) es).hist = (h1 ++ [o]) ++ .voted b :: r := by rw [hh]; simp
  have := vote_rounds_strictly_increase c name es (h1 ++ [o]) r b hvb b' (by rw [er, e1']; simp)
  rw [e2, e2']
  simpa [voteFor] using this

/-- Non-vacuity: a 4-node committee, node 3 receives the round-1 leader's block (justified by
the genesis QC), votes for it; a later equivocating proposal of the same round is not voted. -/
example :
    let c : Committee := ⟨[(1, 1), (2, 1), (3, 1), (4, 1)]⟩
    let blk (p : List Nat) : Block :=
      { qc := QC.genesis, tc := none, author := 2, round := 1, payload := p,
        sig := ⟨2, .block (.block 2 1 p .zero)⟩ }
    let s := run c (init c 3) [.batch 7, .msg (.propose (blk [])), .msg (.propose (blk [7]))]
    (s.hist.filter (fun o => match o with | .voted _ => true | _ => false)).length = 1 ∧
    s.lastVoted = 1 := by
  decide

end HS.C03
