import HotstuffModel.Proofs.QuorumWaiter
import HotstuffModel.Properties.C17
/-!
# C12 — A node's own batch is proposed only after a quorum acknowledged it

Model: `HS.QW` (`Model/QuorumWaiter.lean`).  `outputs cfg init es` is everything the task emits
over the event list `es` (batches arriving with their handler lists, handlers completing in any
order, for the batch being served or for batches still queued).  `forward id ack` = the batch is
handed to the processor (which stores it and announces its digest to consensus); `ack` (ghost) are
the names of the handlers that had been counted.  All theorems hold for every configuration
`cfg` (own stake, threshold, stake function) unless a committee is named, and every event order.

**Dropped handle = ACK.**  The code does `let _ = wait_for.await`, so a cancel handler whose
sender was dropped counts like an acknowledgement (`dropped_counts_like_ack`).  "Acknowledged" in
the theorems below therefore means "the handler completed"; it means "the peer sent an ACK" only
together with C14's guarantee that the reliable sender never drops the sending half of a handle
whose receiver is alive (then no `complete _ _ false` event occurs).
-/
namespace HS.C12
open HS HS.QW HS.Q

/-- Faithful to `let _ = wait_for.await`: whether a handler completed with an ACK or because its
sender was dropped makes no difference to the task. -/
theorem dropped_counts_like_ack (cfg : Cfg) (s : State) (id i : Nat) :
    step cfg s (.complete id i false) = step cfg s (.complete id i true) := rfl

/-- Never before a quorum: whenever a batch is forwarded, own stake plus the stake of the counted
handlers is at least the threshold. -/
theorem forward_only_with_quorum (cfg : Cfg) (es : List Ev) (id : Nat) (ack : List Nat)
    (h : Out.forward id ack ∈ outputs cfg init es) :
    cfg.q ≤ cfg.own + weight cfg.stakeOf ack :=
  outputs_ok cfg init es (inv_init cfg) id ack h

/-- The counted handlers are real: every name in `ack` is the name at position `i` of the handler
list that arrived with this batch id, and a completion event for `(id, i)` happened in this step
or earlier.  (`pre` = events before the step, `e` = the event of the step.) -/
theorem forward_ackers_completed (cfg : Cfg) (pre : List Ev) (e : Ev) (id : Nat) (ack : List Nat)
    (h : Out.forward id ack ∈ (step cfg (run cfg init pre) e).2) :
    ∀ n ∈ ack, ∃ names i a, Ev.batch id names ∈ pre ++ [e] ∧ names[i]? = some n ∧
      Ev.complete id i a ∈ pre ++ [e] := by
  have h0 : BatchesSat (Linked []) init := by
    refine ⟨?_, ?_⟩ <;> simp [init]
  have hr := run_linked cfg init [] pre (inv_init cfg) h0
  have := (step_linked cfg (run cfg init pre) ([] ++ pre) e hr.1 hr.2).2 id ack h
  simpa [AckersLinked] using this

/-- With handler lists as `BatchMaker::seal` builds them (from `Committee::broadcast_addresses`:
distinct committee members other than the node itself), the counted authorities are distinct
committee members other than the node itself — so "own + Σ stake" counts nobody twice. -/
theorem forward_ackers_distinct (cfg : Cfg) (es : List Ev) (self : Nat) (members : List Nat)
    (hes : ∀ id names, Ev.batch id names ∈ es →
      names.Nodup ∧ self ∉ names ∧ ∀ n ∈ names, n ∈ members)
    (id : Nat) (ack : List Nat) (h : Out.forward id ack ∈ outputs cfg init es) :
    ack.Nodup ∧ self ∉ ack ∧ ∀ n ∈ ack, n ∈ members := by
  have h0 : BatchesSat (fun _ hs => (hs.map (·.name)).Nodup ∧ self ∉ hs.map (·.name) ∧
      ∀ n ∈ hs.map (·.name), n ∈ members) init := by
    refine ⟨?_, ?_⟩ <;> simp [init]
  obtain ⟨names, ⟨r1, r2, r3⟩, hsub⟩ :=
    outputs_names cfg (fun names => names.Nodup ∧ self ∉ names ∧ ∀ n ∈ names, n ∈ members)
      init es (inv_init cfg) h0 hes id ack h
  exact ⟨r1.sublist hsub, fun hm => r2 (hsub.subset hm), fun n hn => r3 n (hsub.subset hn)⟩

/-- Strictly one at a time, in arrival order: the ids of the finished batches (forwarded or given
up), then the batch being served, then the queue, are exactly the arrival sequence. -/
theorem served_in_arrival_order (cfg : Cfg) (es : List Ev) :
    (outputs cfg init es).map Out.id ++ ids (run cfg init es) = arrivals es := by
  simpa [ids, init] using fifo_run cfg init es (inv_init cfg)

/-- FIFO: batches are forwarded in the order in which they arrived. -/
theorem forward_fifo (cfg : Cfg) (es : List Ev) :
    (((outputs cfg init es).filter Out.isForward).map Out.id).Sublist (arrivals es) := by
  have h := served_in_arrival_order cfg es
  rw [← h]
  exact (List.filter_sublist.map _).trans (List.sublist_append_left _ _)

/-- At most once: with distinct batch ids, no batch is finished (hence forwarded) twice. -/
theorem forward_at_most_once (cfg : Cfg) (es : List Ev) (hn : (arrivals es).Nodup) :
    ((outputs cfg init es).map Out.id).Nodup ∧
    (((outputs cfg init es).filter Out.isForward).map Out.id).Nodup := by
  have h := served_in_arrival_order cfg es
  have h1 : ((outputs cfg init es).map Out.id).Nodup :=
    hn.sublist (h ▸ List.sublist_append_left _ _)
  exact ⟨h1, h1.sublist (List.filter_sublist.map _)⟩

/-- A batch all of whose handlers completed without reaching the threshold is dropped silently:
it is never forwarded (distinct batch ids). -/
theorem given_up_never_forwarded (cfg : Cfg) (es : List Ev) (hn : (arrivals es).Nodup) (id : Nat)
    (hg : Out.gaveUp id ∈ outputs cfg init es) (ack : List Nat) :
    Out.forward id ack ∉ outputs cfg init es := by
  have h1 := (forward_at_most_once cfg es hn).1
  generalize outputs cfg init es = l at *
  intro hf
  induction l with
  | nil => cases hg
  | cons a l ih =>
    simp only [List.map_cons, List.nodup_cons] at h1
    simp only [List.mem_cons] at hg hf
    rcases hg with hg | hg <;> rcases hf with hf | hf
    · rw [← hg] at hf; cases hf
    · subst hg; exact h1.1 (List.mem_map.mpr ⟨_, hf, rfl⟩)
    · subst hf; exact h1.1 (List.mem_map.mpr ⟨_, hg, rfl⟩)
    · exact ih hg h1.2 hf

/-- While a batch is being served and not yet forwarded, the accumulated stake is consistent with
the completed handlers and is below the threshold — or nothing has been counted yet (the code
tests the threshold only after a completion, so a node whose own stake is a quorum still waits
for the first one).  When own stake is below the threshold the total simply is below it. -/
theorem pending_below_threshold (cfg : Cfg) (es : List Ev) (c : Cur)
    (h : (run cfg init es).cur = some c) :
    c.total = cfg.own + doneStake c.hs ∧ (c.total < cfg.q ∨ ackers c.hs = []) ∧
    (cfg.own < cfg.q → c.total < cfg.q) := by
  obtain ⟨h1, h2, _, _⟩ := (inv_run cfg init es (inv_init cfg)).1 c h
  refine ⟨h1, h2, ?_⟩
  intro ho
  rcases h2 with h2 | h2
  · exact h2
  · rw [h1, ackers_nil_doneStake _ h2]; omega

/-- Exactly at the crossing step: the completion that lifts the accumulated stake of the batch
being served to the threshold emits the forward in that very step (first output of the step),
with exactly the handlers counted so far; a completion that does not reach it emits nothing for
this batch and the batch stays in service (unless every handler has now completed). -/
theorem forward_at_crossing_step (cfg : Cfg) (s : State) (c : Cur) (i : Nat) (a : Bool)
    (h : H) (hs' : List H) (hc : s.cur = some c) (hm : mark i c.hs = some (h, hs')) :
    (cfg.q ≤ c.total + h.stake →
      (step cfg s (.complete c.id i a)).2.head? = some (Out.forward c.id (ackers hs'))) ∧
    (c.total + h.stake < cfg.q → hs'.all (·.done) = false →
      step cfg s (.complete c.id i a) = (⟨some ⟨c.id, c.total + h.stake, hs'⟩, s.queue⟩, [])) := by
  refine ⟨?_, ?_⟩
  · intro hq
    simp [step, hc, hm, hq]
  · intro hq hall
    have : ¬ cfg.q ≤ c.total + h.stake := by omega
    simp [step, hc, hm, this, hall]

/-- The second sentence of C12.  Committee `c` with total stake `1 ≤ n < 2^31`, this node `self`
with its committee stake, handler lists built from the committee (distinct members other than
self), Byzantine stake at most `f = ⌊(n−1)/3⌋`: whenever a batch is forwarded, the *honest*
authorities among the acknowledgers plus self hold at least `f + 1` stake (in fact `q − f`). -/
theorem forwarded_batch_held_by_honest_stake (c : Committee) (self : Nat)
    (bad : Nat → Bool) (es : List Ev)
    (hn1 : 1 ≤ c.total) (hn2 : c.total < 2 ^ 31) (hself : self ∈ c.keys)
    (hes : ∀ id names, Ev.batch id names ∈ es →
      names.Nodup ∧ self ∉ names ∧ ∀ n ∈ names, n ∈ c.keys)
    (hbad : weight c.stakeMempool (c.keys.filter bad) ≤ C17.f c.total)
    (id : Nat) (ack : List Nat)
    (h : Out.forward id ack ∈ outputs (Cfg.ofCommittee c (c.stakeMempool self)) init es) :
    C17.f c.total + 1 ≤ weight c.stakeMempool ((self :: ack).filter (fun x => !bad x)) ∧
    c.quorumMempool - C17.f c.total ≤ weight c.stakeMempool ((self :: ack).filter (fun x => !bad x)) := by
  have hq := forward_only_with_quorum _ es id ack h
  obtain ⟨d1, d2, d3⟩ := forward_ackers_distinct _ es self c.keys hes id ack h
  have hnd : (self :: ack).Nodup := List.nodup_cons.mpr ⟨d2, d1⟩
  have hsub : ∀ x ∈ (self :: ack).filter bad, x ∈ c.keys.filter bad := by
    intro x hx
    rw [List.mem_filter] at hx ⊢
    refine ⟨?_, hx.2⟩
    rcases List.mem_cons.mp hx.1 with hx' | hx'
    · rw [hx']; exact hself
    · exact d3 x hx'
  have hle := weight_le_of_subset c.stakeMempool _ (c.keys.filter bad) (hnd.filter _) hsub
  have hsplit := weight_filter_split c.stakeMempool bad (self :: ack)
  have hb := C17.threshold_bounds_mempool c.total hn1 hn2
  simp only [Cfg.ofCommittee, Committee.quorumMempool] at hq
  simp only [weight_cons] at hsplit
  unfold Committee.quorumMempool
  unfold C17.f at *
  omega

/-- Non-vacuity: four equal authorities (threshold 3), node 1 serving two batches; batch 8's first
handler completes while batch 8 is still queued, batch 7 is forwarded exactly when the second of
its handlers completes (one of them a dropped handle), then batch 8 needs one more completion. -/
example :
    let c : Committee := ⟨[(1, 1), (2, 1), (3, 1), (4, 1)]⟩
    let cfg := Cfg.ofCommittee c (c.stakeMempool 1)
    cfg.q = 3 ∧
    trace cfg init [.batch 7 [2, 3, 4], .batch 8 [2, 3, 4], .complete 8 0 true, .complete 7 2 false,
        .complete 7 2 true, .complete 7 1 true, .complete 7 0 true, .complete 8 2 true]
      = [[], [], [], [], [], [.forward 7 [3, 4]], [], [.forward 8 [2, 4]]] := by
  decide

/-- Non-vacuity for the "own stake is a quorum" corner: a dominant authority still waits for the
first completion, and a batch without handlers is never forwarded. -/
example :
    let c : Committee := ⟨[(1, 5), (2, 1), (3, 1)]⟩
    let cfg := Cfg.ofCommittee c (c.stakeMempool 1)
    cfg.q = 5 ∧
    trace cfg init [.batch 1 [2, 3], .batch 2 [], .complete 1 1 true]
      = [[], [], [.forward 1 [3], .gaveUp 2]] := by
  decide

end HS.C12
