import HotstuffModel.Proofs.Bincode
/-!
# C15 (decoding part) — decoding of keys, digests and messages is total

Panics are values (`Res.panic`, DESIGN §3.6).  `Base64.decode` and all bincode decoders of
`Model/Bincode.lean` are total Lean functions on *every* byte string; the only `panic` outcome in the
model is the slice `bytes[..32]` / `bytes[..64]` in `PublicKey/SecretKey::decode_base64`.

* With the checked slice (`checkedSlice = true`, the repaired code) no decoder ever panics — theorems below.
* With the code as it is (`checkedSlice = false` = `HS.Wire.currentCheckedSlice` on the pinned tree) the
  theorem is **false**: `decode_base64` panics exactly when the text is valid base64 of fewer than 32 (64)
  bytes (`current_key_decoder_panics_iff`), and this is reachable through every message type that
  carries a key (concrete frames below, replayed on the real code by the engine `codec`) — finding F3.

Not covered here: the handlers behind the decoders (C15's other half), non-source-visible panics
(allocation failure: excluded by serde's `cautious` size hint, modelled as element-by-element reading).
-/
namespace HS.C15Decode
open HS.Wire

/-- base64 decoding is total by construction (an `Option`), and whatever it accepts is ASCII, so the
UTF-8 check bincode performs on the string first never changes the outcome. -/
theorem base64_accepts_only_ascii (s r : List UInt8) (h : Base64.decode s = some r) :
    ∀ ch ∈ s, ch.toNat < 128 := Base64.decode_ascii s r h

/-- Repaired code: key decoding returns a key or an error for every text. -/
theorem key_decoding_total_checked (s : List UInt8) :
    decodePublicKey true s ≠ .panic ∧ decodeSecretKey true s ≠ .panic :=
  ⟨decodeKey_checked_ne_panic 32 s, decodeKey_checked_ne_panic 64 s⟩

/-- Repaired code: decoding a consensus frame / a mempool frame / a stored block returns a value or an
error for **every** byte string (any length, any content). -/
theorem message_decoding_total_checked (bs : List UInt8) :
    (decCMsg true).run bs ≠ .panic ∧ (decMMsg true).run bs ≠ .panic ∧ (decBlock true).run bs ≠ .panic :=
  ⟨decCMsg_noPanic bs, decMMsg_noPanic bs, decBlock_noPanic bs⟩

/-- The code as it is NOW: `currentCheckedSlice` is read from crypto/src/lib.rs by the translator on
every run (Generated/Switches.lean).  Decoding of keys, of consensus and mempool frames and of stored
blocks is total: a value or an error for every byte string.  (With the unchecked `bytes[..n]` slice
this theorem no longer type-checks and the check reports the failing input.) -/
theorem decoding_total_current_code (s bs : List UInt8) :
    decodePublicKey currentCheckedSlice s ≠ .panic ∧ decodeSecretKey currentCheckedSlice s ≠ .panic ∧
    (decCMsg currentCheckedSlice).run bs ≠ .panic ∧ (decMMsg currentCheckedSlice).run bs ≠ .panic ∧
    (decBlock currentCheckedSlice).run bs ≠ .panic := by
  have h : currentCheckedSlice = true := rfl
  rw [h]
  exact ⟨(key_decoding_total_checked s).1, (key_decoding_total_checked s).2,
    (message_decoding_total_checked bs).1, (message_decoding_total_checked bs).2.1,
    (message_decoding_total_checked bs).2.2⟩

/-- … and so does the whole sync path (stored bytes → `Helper` → frame → receiver). -/
theorem sync_path_total_checked (bs : List UInt8) : syncPath true bs ≠ .panic := by
  unfold syncPath
  cases h : (decBlock true).run bs with
  | ok p =>
    obtain ⟨b, r⟩ := p
    simp only
    cases h2 : (decCMsg true).run (encCMsg (.propose b)) with
    | ok q => intro hc; cases hc
    | err => intro hc; cases hc
    | panic => exact absurd h2 (decCMsg_noPanic _)
  | err => intro hc; cases hc
  | panic => exact absurd h (decBlock_noPanic bs)

/-- The code as it is: `decode_base64` panics **exactly** on valid base64 text of too few bytes. -/
theorem current_key_decoder_panics_iff (n : Nat) (s : List UInt8) :
    decodeKey false n s = .panic ↔ ∃ b, Base64.decode s = some b ∧ b.length < n := by
  unfold decodeKey
  cases h : Base64.decode s with
  | none => simp
  | some b =>
    by_cases hl : b.length < n
    · simp [hl]
    · simp [hl]

/-- The repair changes nothing else: whenever the current code does not panic, both versions agree. -/
theorem checked_slice_only_removes_panic (n : Nat) (s : List UInt8) (h : decodeKey false n s ≠ .panic) :
    decodeKey true n s = decodeKey false n s := by
  unfold decodeKey at *
  cases hd : Base64.decode s with
  | none => rfl
  | some b =>
    rw [hd] at h
    by_cases hl : b.length < n
    · simp [hl] at h
    · simp [hl]

/-- Counter-examples on the pinned tree (F3), evaluated through the model: the texts `""` and `"AAAA"`
panic the public-key decoder; a 48-byte `SyncRequest` frame whose origin is the string `"AAAA"` panics
the consensus frame decoder, and a `BatchRequest` with no digests and origin `""` panics the mempool
frame decoder — while the repaired decoder returns an error on the same inputs. -/
example : decodePublicKey false [] = .panic ∧ decodePublicKey false [65, 65, 65, 65] = .panic ∧
    decodeSecretKey false (encodeKey (List.replicate 32 0)) = .panic ∧
    decodePublicKey true [65, 65, 65, 65] = .err := by decide

example :
    let frame : List UInt8 := le32 4 ++ List.replicate 32 0 ++ le64 4 ++ [65, 65, 65, 65]
    (decCMsg false).run frame = .panic ∧ (decCMsg true).run frame = .err := by decide

example :
    let frame : List UInt8 := le32 1 ++ le64 0 ++ le64 0
    (decMMsg false).run frame = .panic ∧ (decMMsg true).run frame = .err := by decide

/-- Non-vacuity of totality: inputs of every outcome class exist for the repaired decoder — a valid
frame (ok), a truncated one (error), a bad variant index (error), a huge length prefix (error). -/
example :
    let k : List UInt8 := List.replicate 32 7
    let ok : List UInt8 := encCMsg (.syncRequest k k)
    (∃ m r, (decCMsg true).run ok = .ok (m, r)) ∧ (decCMsg true).run (ok.take 50) = .err ∧
      (decCMsg true).run (le32 5 ++ ok.drop 4) = .err ∧
      (decMMsg true).run (le32 0 ++ le64 (2 ^ 64 - 1)) = .err := by
  refine ⟨⟨.syncRequest (List.replicate 32 7) (List.replicate 32 7), [], by decide⟩, by decide, by decide, by decide⟩

end HS.C15Decode
