import HotstuffModel.Proofs.Reachable
import HotstuffModel.Proofs.Leader
/-!
# C09 — One agreed leader per round; only its blocks are voted; it never equivocates

`Committee.leader` = sort the keys, index by `Gen.leaderIndex round n`, where the index expression
is translated from consensus/src/leader.rs on every run.  Keys are numbered by their rank in
byte-lexicographic order (an order isomorphism: the `leader` engine compares the real
`get_leader` on random 32-byte keys in several insertion orders with this model).
-/
namespace HS.C09
open HS Node

/-- All nodes derive the same proposer from the committee alone: it depends only on the set of keys,
not on the order in which the committee map was filled. -/
theorem same_leader_for_every_insertion_order (c1 c2 : Committee) (h : c1.keys.Perm c2.keys) (r : Nat) :
    c1.leader r = c2.leader r := leader_depends_only_on_key_set c1 c2 h r

/-- `get_leader` never panics on a non-empty committee and returns a member. -/
theorem leader_is_a_member (c : Committee) (h : c.keys ≠ []) (r : Nat) :
    (c.leader? r).isSome = true ∧ c.leader r ∈ c.keys := by
  obtain ⟨k, hk, _⟩ := leader?_some c h r
  exact ⟨by rw [hk]; rfl, leader_mem c h r⟩

/-- Leadership rotates with period `n` … -/
theorem leadership_rotates (c : Committee) (r : Nat) : c.leader (r + c.keys.length) = c.leader r :=
  leader_periodic c r

/-- … and in every window of `n` consecutive rounds every authority leads exactly once. -/
theorem every_authority_leads_once_per_n_rounds (c : Committee) (hw : c.WF) (h : c.keys ≠ [])
    (r0 k : Nat) (hk : k ∈ c.keys) :
    ∃ i, i < c.keys.length ∧ c.leader (r0 + i) = k ∧
      ∀ j, j < c.keys.length → c.leader (r0 + j) = k → j = i :=
  every_authority_leads_once c hw h r0 k hk

/-- Honest nodes vote only for blocks authored and signed by the round's leader — for every
input sequence, on every path (direct, sync-resumed, payload-resumed, own proposals). -/
theorem votes_only_for_leader_blocks (c : Committee) (name : Nat) (hd : Deploy c name)
    (es : List Event) (b : Block) (hb : Out.voted b ∈ (run c (init c name) es).hist) :
    b.author = c.leader b.round ∧ b.sig.signer = b.author ∧ b.sig.content = .block b.digest := by
  have := (reachable_inv3 c name hd es).voted b hb
  have hs : b.sig.signer = b.author ∧ b.sig.content = .block b.digest := by
    simpa [Sig.valid] using this.signed
  exact ⟨this.leader, hs.1, hs.2⟩

/-- An honest authority never signs two different proposals for the same round: the rounds of its
successive proposals strictly increase. -/
theorem proposals_have_increasing_rounds (c : Committee) (name : Nat) (es : List Event)
    (h1 h2 : List Out) (b : Block)
    (hh : (run c (init c name) es).hist = h1 ++ .propose b :: h2) :
    ∀ b', Out.propose b' ∈ h2 → b'.round < b.round := by
  have := (reachable_inv c name es).2.props
  rw [hh] at this
  exact propsOrd_split this

theorem never_two_proposals_for_one_round (c : Committee) (name : Nat) (es : List Event)
    (h1 h2 : List Out) (b b' : Block)
    (hh : (run c (init c name) es).hist = h1 ++ .propose b :: h2) (hb' : Out.propose b' ∈ h2) :
    b'.round ≠ b.round := by
  have := proposals_have_increasing_rounds c name es h1 h2 b hh b' hb'; omega

/-- It proposes only in rounds it leads, under its own name and signature, with verified
certificates, and only once per `Make` request (`Make` rounds strictly increase too). -/
theorem proposals_are_by_the_leader (c : Committee) (name : Nat) (hd : Deploy c name)
    (es : List Event) (b : Block) (hb : Out.propose b ∈ (run c (init c name) es).hist) :
    b.author = (run c (init c name) es).name ∧ b.author = c.leader b.round ∧
    b.sig.valid (.block b.digest) b.author = true ∧
    Out.make b.round b.qc b.tc ∈ (run c (init c name) es).hist := by
  have i3 := (reachable_inv3 c name hd es).proposed b hb
  exact ⟨i3.2, i3.1.leader, i3.1.signed, (reachable_inv c name es).2.propMade b hb⟩

theorem make_rounds_increase (c : Committee) (name : Nat) (es : List Event)
    (h1 h2 : List Out) (r : Nat) (q : QC) (t : Option TC)
    (hh : (run c (init c name) es).hist = h1 ++ .make r q t :: h2) :
    ∀ r' q' t', Out.make r' q' t' ∈ h2 → r' < r := by
  have := (reachable_inv c name es).2.makes
  rw [hh] at this
  exact makesOrd_split this

/-- Non-vacuity: committee {1,2,3,4}: rounds 0..7 are led by 1,2,3,4,1,2,3,4; built in another order
the leaders are the same. -/
example :
    let c1 : Committee := ⟨[(1, 1), (2, 1), (3, 1), (4, 1)]⟩
    let c2 : Committee := ⟨[(3, 1), (1, 1), (4, 1), (2, 1)]⟩
    (List.range 8).map c1.leader = [1, 2, 3, 4, 1, 2, 3, 4] ∧
    (List.range 8).map c2.leader = [1, 2, 3, 4, 1, 2, 3, 4] := by
  decide

end HS.C09
