import HotstuffModel.Proofs.Reachable
import HotstuffModel.Proofs.NodeInv6
import HotstuffModel.Proofs.PrefixLogs
import HotstuffModel.Proofs.Synchronizer
/-!
# C07 — A lagging node fetches missing blocks and converges (PARTIAL: protocol lemmas)

"Recovers once reconnected" is a liveness statement; proved here are the request / reply / park /
resume steps it is made of, for every state and input, and the SAFETY half of convergence for the
global model: whatever a lagging node has delivered at any moment is a prefix of what the others have
delivered (`never_diverges`) — it can only be behind, never on a different sequence.  That it
does catch up is explored on the
real code by the `netsim` engine (a node isolated for a random interval while the others commit,
with and without view changes in the gap, optionally a slow first sync target; afterwards its
commit log must reach the others' and be prefix-equal).
-/
namespace HS.C07
open HS Node

/-- (S1) A peer answers a sync request from a committee member with exactly the block it stored
under the requested digest, and with nothing if it has none. -/
theorem helper_replies_with_stored_block (c : Committee) (s : Node) (d : Digest) (origin : Nat) (b : Block)
    (ho : origin ∈ c.keys) (hb : s.store.lookup d = some b) :
    s.helperStep c d origin = s.emit (.helperReply origin b) := by
  unfold helperStep
  have : (!c.keys.contains origin) = false := by simpa using ho
  simp only [this, Bool.false_eq_true, if_false]
  have : s.readBlock d = .found b := by unfold readBlock; simp [hb]
  simp [this]

theorem helper_silent_when_unknown (c : Committee) (s : Node) (d : Digest) (origin : Nat)
    (hb : s.readBlock d = .missing) : s.helperStep c d origin = s := by
  unfold helperStep
  split
  · rfl
  · simp [hb]

/-- … and the stored block under `d` IS the block with digest `d` (every reachable state). -/
theorem stored_block_has_requested_digest (c : Committee) (name : Nat) (hd : Deploy c name)
    (es : List Event) (d : Digest) (b : Block)
    (hb : (run c (init c name) es).store.lookup d = some b) : b.digest = d :=
  (reachable_inv4 c name hd rfl es).keyed d b (mem_of_lookup hb)

/-- (S2) A block whose parent is missing is parked (not processed, not voted), and the parent is
requested from the block's author — once per missing parent. -/
theorem missing_parent_parks_and_requests (c : Committee) (s : Node) (b : Block)
    (hg : b.qc.isGenesis = false) (hm : s.readBlock b.parent = .missing)
    (hnew : (s.syncPending.any fun x => x.digest == b.digest) = false)
    (hreq : s.syncRequests.contains b.parent = false) (ha : b.author ∈ c.keys) :
    processBlock c s b =
      ({ s with syncPending := s.syncPending ++ [b], syncRequests := s.syncRequests ++ [b.parent] }).emit
        (.syncRequest (some b.author) b.parent) := by
  have hpark : park c s b =
      ({ s with syncPending := s.syncPending ++ [b], syncRequests := s.syncRequests ++ [b.parent] }).emit
        (.syncRequest (some b.author) b.parent) := by
    unfold park
    have hreq' : b.parent ∉ s.syncRequests := by simpa using hreq
    simp [hnew, hreq', ha]
  have hgp : getParent c s b = (park c s b, .parked) := by
    unfold getParent; simp [hg, hm]
  unfold processBlock
  simp [hgp, hpark]

theorem second_child_does_not_repeat_request (c : Committee) (s : Node) (b : Block)
    (hnew : (s.syncPending.any fun x => x.digest == b.digest) = false)
    (hreq : s.syncRequests.contains b.parent = true) :
    park c s b = { s with syncPending := s.syncPending ++ [b] } := by
  unfold park
  have hreq' : b.parent ∈ s.syncRequests := by simpa using hreq
  simp [hnew, hreq']

/-- A parked block is released to the loop-back queue only once its parent is in the store. -/
theorem resume_only_after_parent_stored (c : Committee) (s : Node) (i : Nat) (b : Block)
    (hb : s.syncPending[i]? = some b) (hm : s.readBlock b.parent = .missing) :
    step c s (.syncResume i) = s := by
  unfold step
  split
  · rfl
  · simp [hb, hm]

/-- (S3) Oldest first: a block enters the store only after its parent did (or it extends genesis),
so a chain of missing ancestors is stored — and its commits delivered — in increasing chain order. -/
theorem stored_only_after_parent (c : Committee) (name : Nat) (hd : Deploy c name) (es : List Event)
    (d : Digest) (b : Block) (hb : (d, b) ∈ (run c (init c name) es).store) :
    b.qc.isGenesis = true ∨ ((run c (init c name) es).store.lookup b.parent).isSome = true :=
  (reachable_inv4 c name hd rfl es).closed d b hb

/-- (S4) An unanswered request is re-broadcast to all peers on the retry tick, for as long as the
parent is still being waited for. -/
theorem unanswered_request_is_retried (c : Committee) (s : Node) (d : Digest)
    (hp : s.panic = none) (hreq : s.syncRequests.contains d = true) :
    step c s (.syncRetry d) = s.emit (.syncRequest none d) := by
  unfold step
  have hreq' : d ∈ s.syncRequests := by simpa using hreq
  simp [hp, hreq']

/-- Non-vacuity: node 1 receives the round-2 block first (parent unknown): it parks it and asks
the author; when the round-1 block arrives the parked block is resumed and processed. -/
example :
    let c : Committee := ⟨[(1, 1), (2, 1), (3, 1), (4, 1)]⟩
    let mk (a r : Nat) (q : QC) : Block :=
      { qc := q, tc := none, author := a, round := r, payload := [], sig := ⟨a, .block (.block a r [] q.hash)⟩ }
    let cert (b : Block) : QC :=
      { hash := b.digest, round := b.round, votes := [(2, ⟨2, .vote b.digest b.round⟩), (3, ⟨3, .vote b.digest b.round⟩), (4, ⟨4, .vote b.digest b.round⟩)] }
    let b1 := mk 2 1 QC.genesis
    let b2 := mk 3 2 (cert b1)
    let s1 := run c (init c 1) [.msg (.propose b2)]
    let s2 := run c s1 [.msg (.propose b1), .syncResume 0, .loopback]
    s1.hist.contains (.syncRequest (some 3) b1.digest) = true ∧ s1.syncPending.length = 1 ∧
    s2.store.length = 2 ∧ s2.syncPending.length = 0 := by
  decide

/-! ### The timed `Synchronizer` task (`HS.Sync`, `Model/Synchronizer.lean`): request, retry, resume

The node model above treats a retry as an event the environment may fire.  The theorems below are about
the model of the task itself — its tables WITH timestamps and its timer rule
`timestamp + sync_retry_delay < now`, which is regenerated from `consensus/src/synchronizer.rs` on every
run (`Gen.syncRetryDue`) and driven in lock-step with the real task by the engine `syncretry`. -/

/-- (T1) "it requests each missing ancestor": the first child of a missing parent sends exactly one
request, to that child's author, and the request is stamped with the current time; a second child of
the same parent, or the same block handed over again, sends nothing. -/
theorem sync_first_request_to_author_once (delay : Nat) (s : Sync.State) (b p a now : Nat) :
    (b ∉ s.pending → Sync.hasReq s p = false →
      (Sync.step delay s (.suspend b p a now)).2 = [.request a p] ∧
      (⟨p, now⟩ : Sync.Req) ∈ (Sync.step delay s (.suspend b p a now)).1.requests) ∧
    ((b ∈ s.pending ∨ Sync.hasReq s p = true) → (Sync.step delay s (.suspend b p a now)).2 = []) :=
  ⟨Sync.suspend_first delay s b p a now, Sync.suspend_silent delay s b p a now⟩

/-- (T2) The timer re-broadcasts exactly the requests older than the retry delay — none earlier,
none left out — and sends nothing else. -/
theorem sync_timer_retries_exactly_the_overdue (delay : Nat) (s : Sync.State) (now : Nat) :
    (∀ p, .broadcast p ∈ (Sync.step delay s (.tick now)).2 ↔
      ∃ r ∈ s.requests, r.parent = p ∧ r.ts + delay < now) ∧
    (∀ o ∈ (Sync.step delay s (.tick now)).2, ∃ p, o = .broadcast p) :=
  ⟨fun p => Sync.tick_out delay s now p, fun o ho => Sync.tick_only_broadcasts delay s now o ho⟩

/-- (T3) "an unanswered request is retried with other peers": a request stamped `ts`, for as long as
its parent has not been stored — whatever else is suspended, stored or ticked in between — is
re-broadcast at EVERY tick later than `ts + delay` (the timestamp is never refreshed). -/
theorem sync_unanswered_request_retried_at_every_due_tick (delay : Nat) (s : Sync.State)
    (es : List Sync.Event) (r : Sync.Req) (now : Nat)
    (hr : r ∈ s.requests) (hun : ∀ e ∈ es, e ≠ .stored r.parent) (hdue : r.ts + delay < now) :
    .broadcast r.parent ∈ (Sync.step delay (Sync.run delay s es).1 (.tick now)).2 :=
  (Sync.tick_out delay _ now r.parent).2 ⟨r, Sync.request_persists delay s es r hr hun, rfl, hdue⟩

/-- (T4) "processes them": a suspended block goes back to the core only when its own parent is stored;
then every child waiting for that parent goes back, each once, and nothing of that parent is left —
no waiter, no pending child, no request, so no later tick repeats the request. -/
theorem sync_resume_exactly_on_parent (delay : Nat) (es : List Sync.Event) (p : Nat) :
    let s := (Sync.run delay {} es).1
    (∀ e b, .loopback b ∈ (Sync.step delay s e).2 → ∃ q, e = .stored q ∧ (⟨b, q⟩ : Sync.Wait) ∈ s.waiting) ∧
    (∀ b, (⟨b, p⟩ : Sync.Wait) ∈ s.waiting → .loopback b ∈ (Sync.step delay s (.stored p)).2) ∧
    (Sync.step delay s (.stored p)).2.Nodup ∧
    (∀ b, .loopback b ∈ (Sync.step delay s (.stored p)).2 → b ∉ (Sync.step delay s (.stored p)).1.pending) ∧
    (∀ now, .broadcast p ∉ (Sync.step delay (Sync.step delay s (.stored p)).1 (.tick now)).2) := by
  intro s
  have hI : Sync.Inv s := Sync.run_inv delay {} es Sync.inv_init
  exact ⟨fun e b h => Sync.loopback_only_on_stored delay s e b h,
    fun b h => Sync.stored_resumes_all delay s p b h,
    Sync.stored_resumes_once delay s p hI,
    (Sync.stored_clears delay s p hI).2.2,
    fun now => Sync.no_retry_after_stored delay s p now hI⟩

/-- Non-vacuity (the default configuration: delay 10 s, ticks every 5 s): two children of parent 7,
one request to the first child's author; silent at the ticks of 5 s and 10 s, re-broadcast at 15 s
and 20 s; once 7 is stored both children go back and the tick of 25 s is silent. -/
example :
    (Sync.run 10000 {} [.suspend 1 7 3 2, .suspend 2 7 4 5, .tick 5000, .tick 10000, .tick 15000,
      .tick 20000, .stored 7, .tick 25000]).2 =
      [.request 3 7, .broadcast 7, .broadcast 7, .loopback 1, .loopback 2] := by
  decide

/-- (safety half of "ends up delivering the same committed sequence as the others")  In every
reachable state of the global model — any isolation, any delays, Byzantine stake ≤ f — the delivery
logs of two honest nodes, compared block digest by block digest from the first delivery on, are
prefixes of one another: a lagging node is only ever BEHIND the others, never on another sequence,
so once it has delivered as many blocks as they have, it has delivered the same ones. -/
theorem never_diverges (X : World) (G : GState) (hR : Reach X G) (i j : Nat)
    (hi : X.honest i) (hj : X.honest j) :
    (commitsOf (G i).hist).reverse.map Block.digest <+: (commitsOf (G j).hist).reverse.map Block.digest ∨
    (commitsOf (G j).hist).reverse.map Block.digest <+: (commitsOf (G i).hist).reverse.map Block.digest :=
  logs_prefix_consistent X G hR i j hi hj

theorem same_length_same_log (X : World) (G : GState) (hR : Reach X G) (i j : Nat)
    (hi : X.honest i) (hj : X.honest j)
    (hlen : (commitsOf (G i).hist).length = (commitsOf (G j).hist).length) :
    (commitsOf (G i).hist).map Block.digest = (commitsOf (G j).hist).map Block.digest := by
  have h := never_diverges X G hR i j hi hj
  have e : (commitsOf (G i).hist).reverse.map Block.digest = (commitsOf (G j).hist).reverse.map Block.digest := by
    rcases h with h | h
    · exact h.eq_of_length (by simp [hlen])
    · exact (h.eq_of_length (by simp [hlen])).symm
  have := congrArg List.reverse e
  simpa [List.map_reverse] using this

end HS.C07
