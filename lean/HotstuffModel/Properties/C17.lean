import HotstuffModel.Proofs.Committee
/-!
# C17 — Quorum arithmetic: any two quorums overlap in more than f stake

All statements are about `Gen.qtConsensus` / `Gen.qtMempool` / `Gen.unknownStake*`, which are
*generated from the current Rust source* on every run (tools/translate.py), and about the
committee model built on them.
-/
namespace HS.C17
open HS Q

/-- f = floor((n-1)/3). -/
def f (n : Nat) : Nat := (n - 1) / 3

/-- q > 2n/3 and q ≤ n − f, for every total stake in the arithmetic's range. -/
theorem threshold_bounds (n : Nat) (h1 : 1 ≤ n) (_h2 : n < 2 ^ 31) :
    3 * Gen.qtConsensus n > 2 * n ∧ Gen.qtConsensus n ≤ n - f n := by
  unfold Gen.qtConsensus f; omega

/-- Same for the mempool's copy. -/
theorem threshold_bounds_mempool (n : Nat) (h1 : 1 ≤ n) (_h2 : n < 2 ^ 31) :
    3 * Gen.qtMempool n > 2 * n ∧ Gen.qtMempool n ≤ n - f n := by
  unfold Gen.qtMempool f; omega

/-- Consensus and mempool compute the same threshold for the same stakes. -/
theorem threshold_same (n : Nat) : Gen.qtConsensus n = Gen.qtMempool n := by
  unfold Gen.qtConsensus Gen.qtMempool; omega

/-- On the range n < 2^31 the `u32` evaluation (what the machine computes) does not overflow:
it equals the mathematical value. -/
theorem threshold_no_overflow (n : Nat) (h2 : n < 2 ^ 31) :
    (Gen.qtConsensusU32 (UInt32.ofNat n)).toNat = Gen.qtConsensus n ∧
    (Gen.qtMempoolU32 (UInt32.ofNat n)).toNat = Gen.qtMempool n := by
  unfold Gen.qtConsensusU32 Gen.qtConsensus Gen.qtMempoolU32 Gen.qtMempool
  have hn : n % 4294967296 = n := Nat.mod_eq_of_lt (by omega)
  simp only [UInt32.toNat_add, UInt32.toNat_div, UInt32.toNat_mul, UInt32.toNat_ofNat,
    UInt32.toNat_ofNat', Nat.reducePow, Nat.reduceMod, hn]
  first
    | omega
    | (simp (disch := omega) only [Nat.mod_eq_of_lt]; first | omega | exact ⟨trivial, trivial⟩)

/-- An unknown authority has zero stake (both crates). -/
theorem unknown_stake_zero (c : Committee) (k : Nat) (h : k ∉ c.keys) :
    c.stake k = 0 ∧ c.stakeMempool k = 0 := by
  rw [Committee.stake_unknown c k h, Committee.stakeMempool_unknown c k h]
  exact ⟨rfl, rfl⟩

/-- A signer list whose members all have positive stake consists of committee members. -/
theorem signers_are_members (c : Committee) (l : List Nat) (h : ∀ x ∈ l, 0 < c.stake x) :
    ∀ x ∈ l, x ∈ c.keys := by
  intro x hx
  apply Classical.byContradiction
  intro hn
  have := (unknown_stake_zero c x hn).1
  have := h x hx
  omega

/-- Any two quorums share strictly more than f stake — for every committee (distinct keys,
arbitrary stakes including zero-stake members). -/
theorem quorums_overlap_gt_f (c : Committee) (hc : c.WF) (a b : List Nat)
    (hn1 : 1 ≤ c.total) (hn2 : c.total < 2 ^ 31)
    (ha : a.Nodup) (hb : b.Nodup) (han : ∀ x ∈ a, x ∈ c.keys) (hbn : ∀ x ∈ b, x ∈ c.keys)
    (hqa : c.quorum ≤ c.weight a) (hqb : c.quorum ≤ c.weight b) :
    f c.total < c.weight (a.filter (fun x => decide (x ∈ b))) := by
  have h := quorum_overlap_weight c.stake c.keys a b c.quorum ha hb han hbn hqa hqb
  rw [Committee.weight_keys c hc] at h
  have hb := threshold_bounds c.total hn1 hn2
  unfold Committee.quorum at *
  unfold f at *
  rw [Committee.weight_eq]
  omega

/-- … hence at least one honest authority, whenever the Byzantine stake is at most f. -/
theorem quorums_share_honest (c : Committee) (hc : c.WF) (a b : List Nat) (bad : Nat → Bool)
    (hn1 : 1 ≤ c.total) (hn2 : c.total < 2 ^ 31)
    (ha : a.Nodup) (hb : b.Nodup) (han : ∀ x ∈ a, x ∈ c.keys) (hbn : ∀ x ∈ b, x ∈ c.keys)
    (hqa : c.quorum ≤ c.weight a) (hqb : c.quorum ≤ c.weight b)
    (hbad : c.weight (c.keys.filter bad) ≤ f c.total) :
    ∃ x, x ∈ a ∧ x ∈ b ∧ bad x = false := by
  have hbnd := threshold_bounds c.total hn1 hn2
  apply quorum_intersection c.stake c.keys a b bad c.quorum (f c.total) ha hb han hbn hc hqa hqb hbad
  rw [Committee.weight_keys c hc]
  unfold Committee.quorum f at *
  omega

/-- The honest authorities alone can always form a quorum. -/
theorem honest_form_quorum (c : Committee) (hc : c.WF) (bad : Nat → Bool)
    (hn1 : 1 ≤ c.total) (hn2 : c.total < 2 ^ 31)
    (hbad : c.weight (c.keys.filter bad) ≤ f c.total) :
    c.quorum ≤ c.weight (c.keys.filter (fun x => !bad x)) := by
  have hs := weight_filter_split c.stake bad c.keys
  rw [Committee.weight_keys c hc] at hs
  have hbnd := threshold_bounds c.total hn1 hn2
  simp only [Committee.weight_eq] at *
  unfold Committee.quorum
  omega

/-- Non-vacuity: a concrete skewed committee with a zero-stake member meets the hypotheses. -/
example : let c : Committee := ⟨[(1, 5), (2, 1), (3, 0), (4, 1)]⟩
    c.WF ∧ 1 ≤ c.total ∧ c.total < 2 ^ 31 ∧ c.quorum = 5 ∧ c.quorum ≤ c.weight [1] := by
  decide

end HS.C17
