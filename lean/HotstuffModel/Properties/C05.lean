import HotstuffModel.Proofs.Reachable
import HotstuffModel.Proofs.Commit
/-!
# C05 — A block is committed only on a certified consecutive-round 2-chain

`Out.twoChain b0 b1 blk` is recorded by the model exactly where `process_block` calls
`commit(b0)`; `Out.commit x` is a delivery on the commit channel.
For EVERY event list (any blocks and certificates in any order, gaps at either position of the
2-chain, certified-but-never-extended blocks, votes, timeouts, TCs) and every committee.
-/
namespace HS.C05
open HS Node

/-- Every delivered block `x` is `b0` or an ancestor of `b0` (on the hash chain `b0`'s digest
commits to) for some 2-chain `b0 ← b1 ← blk` that the node processed, where `b1`'s round is exactly
`b0`'s round + 1, `blk` passed `handle_proposal`'s checks (or is the node's own block), and `blk`'s QC —
which certifies `b1`, the child of `b0` — is the genesis QC or was accepted by `QC::verify`. -/
theorem commit_only_on_certified_two_chain (c : Committee) (name : Nat) (hd : Deploy c name)
    (es : List Event) (x : Block) (hx : Out.commit x ∈ (run c (init c name) es).hist) :
    ∃ b0 b1 blk, Out.twoChain b0 b1 blk ∈ (run c (init c name) es).hist ∧
      AncOrSelf x b0 ∧ b0.round + 1 = b1.round ∧ IsParent b0 b1 ∧ IsParent b1 blk ∧
      (blk.qc.isGenesis = true ∨ blk.qc.verify c = .ok ()) ∧
      blk.author = c.leader blk.round ∧ blk.sig.valid (.block blk.digest) blk.author = true := by
  have i5 := reachable_inv5 c name hd rfl es
  have i3 := reachable_inv3 c name hd es
  obtain ⟨_, b0, b1, blk, hrec, hanc⟩ := i5.commits x hx
  obtain ⟨hr, hp1, hp0⟩ := i5.chains b0 b1 blk hrec
  have hck := (i3.chains b0 b1 blk hrec).1
  exact ⟨b0, b1, blk, hrec, hanc, hr, hp0, hp1, hck.qc, hck.leader, hck.signed⟩

/-- A non-genesis QC inside such a `blk` really is quorum-backed for `b1`'s digest. -/
theorem two_chain_qc_is_quorum_backed (c : Committee) (name : Nat) (hd : Deploy c name)
    (es : List Event) (b0 b1 blk : Block)
    (h : Out.twoChain b0 b1 blk ∈ (run c (init c name) es).hist) (hng : blk.qc.isGenesis = false) :
    blk.qc.hash = b1.digest ∧ blk.qc.signers.Nodup ∧ c.quorum ≤ c.weight blk.qc.signers ∧
    ∀ v ∈ blk.qc.votes, v.2.valid (.vote b1.digest blk.qc.round) v.1 = true := by
  have i5 := reachable_inv5 c name hd rfl es
  have i3 := reachable_inv3 c name hd es
  obtain ⟨_, hp1, _⟩ := i5.chains b0 b1 blk h
  have hck := (i3.chains b0 b1 blk h).1
  have hq : blk.qc.verify c = .ok () := by
    rcases hck.qc with hg | hq
    · rw [hng] at hg; cases hg
    · exact hq
  have hpar : b1.digest = blk.qc.hash := by
    rcases hp1 with ⟨hg, _⟩ | hp
    · rw [hng] at hg; cases hg
    · exact hp
  obtain ⟨h1, _, h3, h4⟩ := (QC.verify_ok_iff c blk.qc).mp hq
  refine ⟨hpar.symm, h1, h3, ?_⟩
  intro v hv
  have := h4 v hv
  rw [hpar]; exact this

theorem lc_advanceRound (s : Node) (r : Nat) (ev : Evidence) :
    (s.advanceRound r ev).lastCommitted = s.lastCommitted ∧ (s.advanceRound r ev).hist.filter Out.isCommitOut = s.hist.filter Out.isCommitOut := by
  unfold advanceRound; split <;> simp [Out.isCommitOut]

theorem lc_processQC (s : Node) (qc : QC) :
    (s.processQC qc).lastCommitted = s.lastCommitted ∧ (s.processQC qc).hist.filter Out.isCommitOut = s.hist.filter Out.isCommitOut := by
  unfold processQC updateHighQC
  split <;> simp [lc_advanceRound]

theorem lc_generateProposal (s : Node) (tc : Option TC) :
    (s.generateProposal tc).lastCommitted = s.lastCommitted ∧ (s.generateProposal tc).hist.filter Out.isCommitOut = s.hist.filter Out.isCommitOut := by
  unfold generateProposal; simp [Out.isCommitOut]

theorem lc_handleVote (c : Committee) (s : Node) (v : Vote) :
    (s.handleVote c v).lastCommitted = s.lastCommitted ∧ (s.handleVote c v).hist.filter Out.isCommitOut = s.hist.filter Out.isCommitOut := by
  unfold handleVote
  split
  · simp
  · split
    · simp
    · split
      · simp
      · simp
      · simp only []
        split <;> simp [lc_generateProposal, lc_processQC]

theorem lc_handleTimeout (c : Committee) (s : Node) (t : Timeout) :
    (s.handleTimeout c t).lastCommitted = s.lastCommitted ∧ (s.handleTimeout c t).hist.filter Out.isCommitOut = s.hist.filter Out.isCommitOut := by
  unfold handleTimeout
  split
  · simp
  · split
    · simp
    · simp only []
      split
      · simp [lc_processQC]
      · simp [lc_processQC]
      · split <;> simp [lc_generateProposal, lc_advanceRound, lc_processQC, Out.isCommitOut]

theorem lc_handleTC (c : Committee) (s : Node) (t : TC) :
    (s.handleTC c t).lastCommitted = s.lastCommitted ∧ (s.handleTC c t).hist.filter Out.isCommitOut = s.hist.filter Out.isCommitOut := by
  unfold handleTC
  split
  · simp
  · split
    · simp
    · simp only []
      split <;> simp [lc_generateProposal, lc_advanceRound]

/-- Nothing else commits: a step that is not the processing of a block — a vote (however many), a
timeout, a TC, a timer expiry, a sync request, a batch, a digest, a proposer step, a wake-up —
delivers nothing and leaves `last_committed_round` alone, whatever it carries. -/
theorem only_block_processing_commits (c : Committee) (s : Node) (e : Event)
    (he : match e with
      | .msg (.propose _) | .loopback => False
      | _ => True) :
    (step c s e).lastCommitted = s.lastCommitted ∧
    (step c s e).hist.filter Out.isCommitOut = s.hist.filter Out.isCommitOut := by
  unfold step
  split
  · simp
  · cases e with
    | msg m =>
      cases m with
      | propose b => simp at he
      | vote v => exact lc_handleVote c s v
      | timeout t => exact lc_handleTimeout c s t
      | tc t => exact lc_handleTC c s t
    | timer =>
      simp only [localTimeout]
      have := lc_handleTimeout c (({ s with lastVoted := max s.lastVoted s.round }).emit
        (.timeout { highQC := s.highQC, round := s.round, author := s.name,
                    sig := ⟨s.name, .timeout s.round s.highQC.round⟩ }))
        { highQC := s.highQC, round := s.round, author := s.name,
          sig := ⟨s.name, .timeout s.round s.highQC.round⟩ }
      simpa [Out.isCommitOut] using this
    | loopback => simp at he
    | proposer o => simp only [proposerStep]; (repeat' split) <;> simp [Out.isCommitOut]
    | digest d => simp only [digestStep, storeBatch]; (repeat' split) <;> simp
    | batch d => simp only [storeBatch]; (repeat' split) <;> simp
    | syncResume i => simp only []; (repeat' split) <;> simp
    | payloadResume i => simp only []; (repeat' split) <;> simp
    | syncRetry d => simp only []; (repeat' split) <;> simp [Out.isCommitOut]
    | helper d o => simp only [helperStep]; (repeat' split) <;> simp [fail, Out.isCommitOut]

/-- Non-vacuity: blocks of rounds 1, 2, 3 in a row commit round 1; with a round gap (1, 3, 4 — block 3
justified by a TC) the arrival of block 4 commits nothing new for round 1's child. -/
example :
    let c : Committee := ⟨[(1, 1), (2, 1), (3, 1), (4, 1)]⟩
    let mk (a r : Nat) (q : QC) : Block :=
      { qc := q, tc := none, author := a, round := r, payload := [], sig := ⟨a, .block (.block a r [] q.hash)⟩ }
    let cert (b : Block) : QC :=
      { hash := b.digest, round := b.round, votes := [(1, ⟨1, .vote b.digest b.round⟩), (2, ⟨2, .vote b.digest b.round⟩), (3, ⟨3, .vote b.digest b.round⟩)] }
    let b1 := mk 2 1 QC.genesis
    let b2 := mk 3 2 (cert b1)
    let b3 := mk 4 3 (cert b2)
    let s := run c (init c 1) [.msg (.propose b1), .msg (.propose b2), .msg (.propose b3)]
    s.lastCommitted = 1 ∧ s.hist.contains (.commit b1) = true := by
  decide

end HS.C05
