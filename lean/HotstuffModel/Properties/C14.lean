import HotstuffModel.Proofs.ReliableSender
import HotstuffModel.Proofs.ReliableSenderOrder
/-!
# C14 — Reliable sender: at-least-once, in-order delivery, correctly paired ACKs

Model: `HS.RS` (Model/ReliableSender.lean), one `Connection` task of `network::ReliableSender`.
Every theorem quantifies over every reachable state, i.e. over every finite sequence of events
(sends, cancellations, connect results, timer, `select!` choices, write results, responses, EOF) from
`init` — or over every state at all where no invariant is needed.

What is assumed, not proved (see the engine `sender` for the tie to the Rust code and DESIGN §6):
the transport is a FIFO byte stream per connection and the peer answers the k-th frame it reads on a
connection with the k-th frame it writes on it; with that, `ack_pairing` + `resolve_only_with_own_reply`
say that a handle completes only with the peer's reply to that very message.
"Eventually delivered" needs fairness (a connection eventually stays up long enough); the schedule
under which delivery happens is explicit in `delivered_if_connection_stays_up`.
-/
namespace HS.C14
open HS.RS



/-- (order) What the sender holds — `pending ++ writing ++ buffer ++ chan` —, restricted to the
messages whose handle is alive, is exactly the hand-over-ordered list of the live messages that have
not been acknowledged yet. -/
theorem unacked_in_handover_order (s : State) (h : Reachable s) :
    s.held.filter (fun m => decide (m ∉ s.closed)) =
      s.handed.filter (fun m => decide (m ∉ s.closed) && decide (m ∉ acked s.trace)) := by
  have H := h.invH
  have hsub : (s.held.filter (fun m => decide (m ∉ s.closed))).Sublist s.handed :=
    List.filter_sublist.trans H.sub
  rw [sublist_eq_filter hsub H.nodupH]
  apply List.filter_congr
  intro x hx
  by_cases hc : x ∈ s.closed
  · simp [hc]
  · by_cases ha : x ∈ acked s.trace
    · have : x ∉ s.held := fun hh => H.fresh x hh ha
      simp [hc, ha, this]
    · have : x ∈ s.held := H.keep x hx hc ha
      simp [hc, ha, this]

/-- Every frame is the completion of the write in progress, on the current connection. -/
theorem frame_is_write_in_progress (s : State) (e : Event) (c id : Nat)
    (hf : Out.frame c id ∈ outs s e) : s.writing = some id ∧ c = s.connNo ∧ s.mode = .connected :=
  frame_writing s e c id hf

/-! ### Order of first transmissions

`written s.trace` is the sequence of message ids of the frames written so far on any connection,
OLDEST FIRST, with repetitions (retransmissions); `s.handed` is the hand-over order.  Three forms are
proved (the invariant behind the trace form is `HS.RS.OrderInv`, Proofs/ReliableSenderOrder.lean:
for `a` handed over before `b`, either `a` occurs in `written` before the first occurrence of `b`, or
`a` is `Dead` — cancelled, never written, not being written — and `Dead` is stable under every step):

* step form  `first_transmissions_in_handover_order_step`: at the moment of ANY first transmission,
  every message handed over earlier has already been transmitted or is cancelled;
* TRACE FORM `first_transmissions_in_handover_order`: in every reachable state, for every first
  occurrence of `b` in `written` and every `a` handed over before `b`: `a` occurs before it, or `a`
  does not occur at all and is cancelled; with `skipped_never_transmitted_later`: such a skipped
  message is never transmitted afterwards either;
* sublist form `first_transmissions_sublist_of_handover_order`: `written` with later duplicates
  erased is a `List.Sublist` of `handed`. -/

/-- (order, step form) When a message `b` is transmitted for the first time, every message handed
over before `b` has already been transmitted or has been cancelled: no live message is overtaken. -/
theorem first_transmissions_in_handover_order_step (s : State) (h : Reachable s) (e : Event) (c b : Nat)
    (hf : Out.frame c b ∈ outs s e) (_hfirst : b ∉ written s.trace)
    (pre post : List Nat) (hsplit : s.handed = pre ++ b :: post) (a : Nat) (ha : a ∈ pre) :
    a ∈ written s.trace ∨ a ∈ s.closed :=
  handed_before_writing s h b (frame_is_write_in_progress s e c b hf).1 pre post hsplit a ha

/-- (order, TRACE FORM) In every reachable state, let `W = written s.trace` (oldest first).  For every
split `W = pre' ++ b :: post'` with `b ∉ pre'` — the FIRST transmission of `b` — and every message `a`
handed over before `b` (`s.handed = pre ++ b :: post`, `a ∈ pre`): either `a ∈ pre'` (`a` was first
transmitted before `b`), or `a` is not transmitted at all in `W` and `a` is cancelled.  First
transmissions happen in hand-over order, except that cancelled messages may be skipped. -/
theorem first_transmissions_in_handover_order (s : State) (h : Reachable s)
    (pre : List Nat) (b : Nat) (post : List Nat) (hsplit : s.handed = pre ++ b :: post)
    (a : Nat) (ha : a ∈ pre)
    (pre' post' : List Nat) (hW : written s.trace = pre' ++ b :: post') (hfirst : b ∉ pre') :
    a ∈ pre' ∨ (a ∉ written s.trace ∧ a ∈ s.closed) :=
  first_transmissions_ordered s h pre b post hsplit a ha pre' post' hW hfirst

/-- (order) A skipped message is never transmitted later: if `b` has been transmitted and `a`, handed
over before `b`, has not, then `a` is not transmitted in any continuation of the run. -/
theorem skipped_never_transmitted_later (s : State) (h : Reachable s)
    (pre : List Nat) (b : Nat) (post : List Nat) (hsplit : s.handed = pre ++ b :: post)
    (a : Nat) (ha : a ∈ pre) (hb : b ∈ written s.trace) (hna : a ∉ written s.trace)
    (es : List Event) : a ∉ written (run s es).trace :=
  skipped_never_written s h pre b post hsplit a ha hb hna es

/-- (order, sublist form) The messages in the order of their first transmission (`written` with later
duplicates erased; `List.eraseDups` keeps first occurrences) form a sublist of the hand-over order. -/
theorem first_transmissions_sublist_of_handover_order (s : State) (h : Reachable s) :
    (written s.trace).eraseDups.Sublist s.handed :=
  eraseDups_written_sublist_handed s h

/-- (pairing) On every connection, the messages popped by the responses read so far are exactly the
first messages written on THAT connection, in the same order: the k-th response read on a
connection is paired with the k-th frame written on it, and with nothing else. -/
theorem ack_pairing (s : State) (h : Reachable s) (c : Nat) :
    (acksOn c s.trace).map Prod.fst <+: framesOn c s.trace :=
  h.invP.pref c

/-- (pairing, by index) If the k-th response read on connection `c` was paired with message `id`
(and carried `bytes`), then the k-th frame written on `c` carried `id`. -/
theorem ack_pairing_index (s : State) (h : Reachable s) (c k id bytes : Nat)
    (hk : (acksOn c s.trace)[k]? = some (id, bytes)) : (framesOn c s.trace)[k]? = some id := by
  obtain ⟨t, ht⟩ := ack_pairing s h c
  rw [← ht]
  have h1 : ((acksOn c s.trace).map Prod.fst)[k]? = some id := by
    simp [List.getElem?_map, hk]
  have hlt : k < ((acksOn c s.trace).map Prod.fst).length := by
    rcases Nat.lt_or_ge k ((acksOn c s.trace).map Prod.fst).length with hl | hl
    · exact hl
    · rw [List.getElem?_eq_none hl] at h1; cases h1
  rw [List.getElem?_append_left hlt]
  exact h1

/-- (pairing) A handle completes only with the bytes of the response that was read, on some
connection, in the position of a frame carrying that very message. -/
theorem resolve_only_with_own_reply (s : State) (h : Reachable s) (id bytes : Nat)
    (hr : (id, bytes) ∈ resolved s.trace) :
    ∃ c k : Nat, (acksOn c s.trace)[k]? = some (id, bytes) ∧ (framesOn c s.trace)[k]? = some id := by
  obtain ⟨c, hc⟩ := h.invP.res (id, bytes) hr
  obtain ⟨k, hk⟩ := List.getElem?_of_mem hc
  exact ⟨c, k, hk, ack_pairing_index s h c k id bytes hk⟩

/-- (pairing) A handle completes at most once. -/
theorem resolve_at_most_once (s : State) (h : Reachable s) :
    ((resolved s.trace).map Prod.fst).Nodup := by
  have h1 : ((resolved s.trace).map Prod.fst).Sublist ((allAcks s.trace).map Prod.fst) :=
    h.invP.resSub.map _
  rw [allAcks_map_fst] at h1
  exact h.invH.ackedNodup.sublist h1

/-- (at-least-once, safety half) A message that was handed over and is neither acknowledged nor
cancelled is never lost: the sender still holds it. -/
theorem never_lost (s : State) (h : Reachable s) (m : Nat) (hm : m ∈ s.handed)
    (hlive : m ∉ s.closed) (hun : m ∉ acked s.trace) : m ∈ s.held :=
  h.invH.keep m hm hlive hun

/-- (no drop) No step removes a message whose handle is alive from the sender, except by completing
its handle.  (Holds in every state, reachable or not.) -/
theorem no_drop (s : State) (e : Event) (m : Nat) (hm : m ∈ s.held) (hlive : m ∉ (step s e).closed) :
    m ∈ (step s e).held ∨ ∃ bytes, Out.resolve m bytes ∈ outs s e := by
  cases shape_step s e with
  | quiet hh hc ha sub keep => exact Or.inl (keep m hm (hc ▸ hlive))
  | ack m0 rest hh hc ha hd sub keep hres =>
    rw [hd] at hm
    rcases List.mem_cons.1 hm with rfl | hr
    · exact Or.inr (hres (hc ▸ hlive))
    · exact Or.inl (keep m hr (hc ▸ hlive))
  | send id hid hh hc ha hd => rw [hd]; exact Or.inl (List.mem_append_left _ hm)
  | cancel id hh hc ha hd => rw [hd]; exact Or.inl hm

/-- (cancellation) `is_closed` is checked when a write starts: a write never starts for a message
whose handle is already dropped. -/
theorem write_starts_only_if_not_cancelled (s : State) (e : Event) (m : Nat)
    (h1 : (step s e).writing = some m) (h0 : s.writing ≠ some m) : m ∉ s.closed :=
  writing_starts_live s e m h1 h0

/-- `closed` only grows. -/
theorem closed_mono (s : State) (e : Event) (m : Nat) (h : m ∈ s.closed) : m ∈ (step s e).closed :=
  closed_step_mono s e m h

/-- (cancellation) Once the handle of `id` is dropped — unless the write of `id` is in progress at
that very moment — no frame carrying `id` is ever written again, on any connection, whatever
happens afterwards. -/
theorem cancelled_never_written_again (s : State) (id : Nat) (hc : id ∈ s.closed)
    (hw : s.writing ≠ some id) (es : List Event) (c : Nat) : Out.frame c id ∉ runO s es := by
  induction es generalizing s with
  | nil => simp [runO]
  | cons e es ih =>
    simp only [runO, List.mem_append, not_or]
    refine ⟨fun hf => hw (frame_is_write_in_progress s e c id hf).1, ?_⟩
    apply ih (step s e) (closed_mono s e id hc)
    intro h1
    exact write_starts_only_if_not_cancelled s e id h1 hw hc

/-- (cancellation) Dropping a handle does not touch the sender's queues: a cancelled message that is
already in `pending` stays there (its response slot is still consumed in order — `ack_pairing` does
not depend on cancellation) until the connection fails; one in the buffer stays until the drain loop
or the `retain` reaches it. -/
theorem cancel_keeps_queues (s : State) (id : Nat) :
    let s' := step s (.cancel id)
    s'.pending = s.pending ∧ s'.writing = s.writing ∧ s'.buffer = s.buffer ∧ s'.chan = s.chan ∧
      s'.mode = s.mode ∧ outs s (.cancel id) = [] := by
  simp only [step, outs, stepCore]
  split <;> simp

/-- (cancellation) A handle that was dropped is never completed. -/
theorem resolve_only_if_not_cancelled (s : State) (e : Event) (id bytes : Nat)
    (h : Out.resolve id bytes ∈ outs s e) : id ∉ s.closed := by
  cases e <;> simp only [outs, stepCore] at h
  case send => split at h <;> simp at h
  case cancel => split at h <;> simp at h
  case connectOk => split at h <;> simp at h
  case connectFail => split at h <;> simp at h
  case timerFired => split at h <;> simp at h
  case recvMsg => split at h <;> (try split at h) <;> (try split at h) <;> simp at h
  case writeBegin => split at h <;> (try split at h) <;> simp at h
  case writeOk => split at h <;> simp at h
  case writeFail => split at h <;> simp at h
  case ackRead =>
    split at h
    · split at h
      · simp at h
      · split at h
        · simp at h
        · rename_i hcl; simp at h; rw [h.1]; simpa [State.isClosed] using hcl
    · simp at h
  case readClosed => split at h <;> simp at h

/-- (retransmission) On every new connection, every message the task holds in its buffer whose
handle is alive is written again, in order, before the connection idles — provided the writes
succeed: after `connectOk` and enough rounds of the drain loop the buffer is empty, `pending` is
exactly the list of live messages in hand-over order, and exactly those frames were written on the
new connection.  (Messages still in the channel follow by `recvMsg`, `writeBegin`, `writeOk` each.) -/
theorem reconnect_retransmits_all (s : State) (h : Reachable s) (hm : s.mode = .connecting)
    (n : Nat) (hn : s.buffer.length ≤ n) :
    let s' := run s (.connectOk :: flush n)
    s'.mode = .connected ∧ s'.connNo = s.connNo + 1 ∧ s'.buffer = [] ∧ s'.writing = none ∧
    s'.pending = s.buffer.filter (fun x => !s.isClosed x) ∧
    runO s (.connectOk :: flush n) =
      (s.buffer.filter (fun x => !s.isClosed x)).map (Out.frame (s.connNo + 1)) := by
  have hi := h.invP.idle (by simp [hm])
  obtain ⟨c0, o0⟩ := connectOk_spec s hm
  have hc := c0.connNo
  have hm1 : (step s .connectOk).mode = .connected := c0.mode
  have hw1 : (step s .connectOk).writing = none := by rw [c0.writing, hi.2]
  obtain ⟨c1, o1⟩ := flush_spec n (step s .connectOk) hm1 hw1 (by rw [c0.buffer]; exact hn)
  have hcl : (step s .connectOk).isClosed = s.isClosed := isClosed_congr _ _ c0.closed
  rw [c0.buffer, c0.pending, hcl, hi.1] at c1
  rw [c0.buffer, hcl, hc] at o1
  simp only [run, runO]
  refine ⟨by rw [c1.mode, hm1], by rw [c1.connNo, hc], c1.buffer, c1.writing, by simpa using c1.pending, ?_⟩
  rw [o0, o1]; simp

/-- (at-least-once, enabling lemma for liveness) On an idle established connection, if the peer
answers every outstanding frame (`bs` = the bytes of its replies, in order), every outstanding
message is paired with its own reply, every live handle completes with it, and nothing is left
pending. -/
theorem acks_resolve_all_pending (s : State) (hm : s.mode = .connected) (hw : s.writing = none)
    (hb : s.buffer = []) (bs : List Nat) (hl : bs.length = s.pending.length) :
    (run s (bs.map .ackRead)).pending = [] ∧
      runO s (bs.map .ackRead) = ackOuts s.connNo s.closed s.pending bs := by
  induction bs generalizing s with
  | nil =>
    have : s.pending = [] := List.eq_nil_of_length_eq_zero (by simpa using hl.symm)
    simp [run, runO, this, ackOuts]
  | cons b bs ih =>
    cases hp : s.pending with
    | nil => rw [hp] at hl; simp at hl
    | cons m rest =>
      obtain ⟨c1, o1⟩ := ackRead_spec s hm hw hb m rest hp b
      have := ih (step s (.ackRead b)) (by rw [c1.mode, hm]) c1.writing c1.buffer
        (by rw [c1.pending]; rw [hp] at hl; simpa using hl)
      simp only [List.map_cons, run, runO, ackOuts]
      rw [c1.pending, c1.connNo, c1.closed] at this
      refine ⟨this.1, ?_⟩
      rw [o1, this.2]; simp

/-- (at-least-once, liveness under fairness) THE FAIRNESS ASSUMPTION IS EXPLICIT IN THE SCHEDULE: if
from a reachable state in which the task is about to connect and the channel is empty, the
connection is established, stays up while the drain loop writes everything (all writes succeed),
and the peer answers every frame (`bs`), then every message that was handed over, is not cancelled
and was not acknowledged before is delivered on the new connection and its handle completes with the
peer's reply to it.  Without "a connection eventually stays up this long" nothing is ever delivered
(e.g. `connectFail`, `timerFired` forever), so the unconditional "eventually" is not a theorem. -/
theorem delivered_if_connection_stays_up (s : State) (h : Reachable s) (hm : s.mode = .connecting)
    (hch : s.chan = []) (bs : List Nat)
    (hbs : bs.length = (s.buffer.filter (fun x => !s.isClosed x)).length)
    (m : Nat) (hh : m ∈ s.handed) (hlive : m ∉ s.closed) (hun : m ∉ acked s.trace) :
    let es := (.connectOk :: flush s.buffer.length) ++ bs.map .ackRead
    Out.frame (s.connNo + 1) m ∈ runO s es ∧ ∃ b, b ∈ bs ∧ Out.resolve m b ∈ runO s es := by
  have hi := h.invP.idle (by simp [hm])
  have hheld := h.invH.keep m hh hlive hun
  have hmb : m ∈ s.buffer := by simpa [State.held, hi.1, hi.2, hch] using hheld
  have hmf : m ∈ s.buffer.filter (fun x => !s.isClosed x) :=
    List.mem_filter.2 ⟨hmb, by simp [State.isClosed, hlive]⟩
  obtain ⟨hm1, hc1, hb1, hw1, hp1, o1⟩ := reconnect_retransmits_all s h hm s.buffer.length (Nat.le_refl _)
  have hcl1 : (run s (.connectOk :: flush s.buffer.length)).closed = s.closed := by
    obtain ⟨c0, _⟩ := connectOk_spec s hm
    have hw0 : (step s .connectOk).writing = none := by rw [c0.writing, hi.2]
    obtain ⟨c1, _⟩ := flush_spec s.buffer.length (step s .connectOk) c0.mode hw0 (by rw [c0.buffer]; exact Nat.le_refl _)
    simp only [run]; rw [c1.closed, c0.closed]
  obtain ⟨_, o2⟩ := acks_resolve_all_pending _ hm1 hw1 hb1 bs (by rw [hp1]; exact hbs)
  have hrun : ∀ (s : State) (es es' : List Event), runO s (es ++ es') = runO s es ++ runO (run s es) es' := by
    intro s es es'
    induction es generalizing s with
    | nil => simp [run, runO]
    | cons e es ih => simp [run, runO, ih, List.append_assoc]
  intro es
  show Out.frame (s.connNo + 1) m ∈ runO s (_ ++ _) ∧ ∃ b, b ∈ bs ∧ Out.resolve m b ∈ runO s (_ ++ _)
  rw [hrun, o1, o2, hp1, hc1, hcl1]
  refine ⟨List.mem_append_left _ (List.mem_map.2 ⟨m, hmf, rfl⟩), ?_⟩
  obtain ⟨i, hi'⟩ := List.getElem?_of_mem hmf
  have hlt : i < bs.length := by
    rw [hbs]
    rcases Nat.lt_or_ge i (s.buffer.filter (fun x => !s.isClosed x)).length with hl | hl
    · exact hl
    · rw [List.getElem?_eq_none hl] at hi'; cases hi'
  refine ⟨bs[i], List.getElem_mem hlt, List.mem_append_right _ ?_⟩
  exact mem_ackOuts_resolve _ _ _ _ i m bs[i] hi' (List.getElem?_eq_getElem hlt) hlive

/-- (back-off) The retry delay stays within [200 ms, 60 s]. -/
theorem backoff_bounds (s : State) (h : Reachable s) : 200 ≤ s.delay ∧ s.delay ≤ 60000 := by
  obtain ⟨es, rfl⟩ := h
  suffices ∀ (s : State), (200 ≤ s.delay ∧ s.delay ≤ 60000) → 200 ≤ (run s es).delay ∧ (run s es).delay ≤ 60000 from
    this init (by simp [init])
  induction es with
  | nil => intro s hs; exact hs
  | cons e es ih =>
    intro s hs
    apply ih
    cases e <;> simp only [step, stepCore] <;> (repeat' split) <;> simp_all [teardown] <;> omega

/-- (back-off) A refused connect is followed by a wait whose length doubles (capped at 60 s) when it
elapses; an established connection resets it to 200 ms; a failed connection is followed by an
immediate reconnect (no wait). -/
theorem backoff_doubles_and_resets (s : State) :
    (s.mode = .waiting → (step s .timerFired).delay = min (2 * s.delay) 60000 ∧
        (step s .timerFired).mode = .connecting) ∧
    (s.mode = .connecting → (step s .connectOk).delay = 200 ∧ (step s .connectFail).mode = .waiting ∧
        (step s .connectFail).delay = s.delay) ∧
    (teardown s).mode = .connecting := by
  refine ⟨?_, ?_, rfl⟩
  · intro h; simp [step, stepCore, h]
  · intro h; simp [step, stepCore, h]

/-! ### Non-vacuity: concrete runs -/

/-- Two messages, the connection breaks after the first ACK, the second message is retransmitted on
the next connection and acknowledged there. -/
example :
    (run init [.send 1, .send 2, .connectOk, .recvMsg, .writeBegin, .writeOk, .recvMsg, .writeBegin, .writeOk,
      .ackRead 70, .readClosed, .connectOk, .writeBegin, .writeOk, .ackRead 71]).trace =
      [.frame 1 1, .frame 1 2, .ackd 1 1 70, .resolve 1 70, .frame 2 2, .ackd 2 2 71, .resolve 2 71] := by
  decide

/-- A message cancelled while in `pending` stays there: its response is consumed in its own position
(no handle completes), the next response goes to the next message; after a failure it is not
written again while the live one is. -/
example :
    (run init [.send 1, .send 2, .send 3, .connectOk, .recvMsg, .writeBegin, .writeOk, .recvMsg, .writeBegin,
      .writeOk, .recvMsg, .writeBegin, .writeOk, .cancel 1, .cancel 2, .ackRead 70, .readClosed, .connectFail,
      .timerFired, .connectOk, .writeBegin, .writeOk, .ackRead 71]).trace =
      [.frame 1 1, .frame 1 2, .frame 1 3, .ackd 1 1 70, .frame 2 3, .ackd 2 3 71, .resolve 3 71] := by
  decide

/-- The exact boundary of the cancellation clause: `is_closed` is checked when the write STARTS; a
handle dropped while its write is blocked on a full socket does not stop that write. -/
example :
    (run init [.send 1, .connectOk, .recvMsg, .writeBegin, .cancel 1, .writeOk]).trace = [.frame 1 1] ∧
    (run init [.send 1, .connectOk, .recvMsg, .cancel 1, .writeBegin, .writeOk]).trace = [] := by
  decide

/-- An unsolicited response (nothing pending) tears the connection down; a message sent meanwhile is
written on the next connection. -/
example :
    (run init [.send 1, .connectOk, .recvMsg, .writeBegin, .writeOk, .ackRead 5, .ackRead 6, .send 2]).mode = .connecting ∧
    (run init [.send 1, .connectOk, .recvMsg, .writeBegin, .writeOk, .ackRead 5, .ackRead 6, .send 2,
      .connectOk, .recvMsg, .writeBegin, .writeOk]).trace = [.frame 1 1, .ackd 1 1 5, .resolve 1 5, .frame 2 2] := by
  decide

/-- The hypotheses of `delivered_if_connection_stays_up` / `reconnect_retransmits_all` are met by a
reachable state with two live un-acknowledged messages and a cancelled one in the buffer. -/
example :
    let s := run init [.send 1, .send 2, .send 3, .connectOk, .recvMsg, .writeBegin, .writeOk, .recvMsg,
      .writeBegin, .writeOk, .recvMsg, .writeBegin, .writeOk, .cancel 2, .readClosed]
    Reachable s ∧ s.mode = .connecting ∧ s.chan = [] ∧ s.buffer = [1, 2, 3] ∧ s.closed = [2] ∧
      acked s.trace = [] ∧ s.buffer.filter (fun x => !s.isClosed x) = [1, 3] := by
  refine ⟨⟨_, rfl⟩, ?_⟩
  decide

/-- Trace form of the order property, non-vacuously: `1, 2, 3, 4` are handed over; `1` is written
and acknowledged; `2` is cancelled while it waits in the channel and is SKIPPED; `3` is written, the
connection breaks, `3` is retransmitted and then `4` is written.  For the first transmissions of `3`
and of `4` the hypotheses of `first_transmissions_in_handover_order` are met with `a = 2`
(second disjunct: never written, cancelled) and with `a = 1` resp. `a = 3` (first disjunct). -/
example :
    let s := run init [.send 1, .send 2, .send 3, .send 4, .connectOk, .recvMsg, .writeBegin, .writeOk,
      .cancel 2, .recvMsg, .ackRead 70, .recvMsg, .writeBegin, .writeOk, .readClosed, .connectOk,
      .writeBegin, .writeOk, .recvMsg, .writeBegin, .writeOk]
    Reachable s ∧ s.handed = [1, 2] ++ 3 :: [4] ∧ s.handed = [1, 2, 3] ++ 4 :: [] ∧
      written s.trace = [1] ++ 3 :: [3, 4] ∧ 3 ∉ [1] ∧ written s.trace = [1, 3, 3] ++ 4 :: [] ∧ 4 ∉ [1, 3, 3] ∧
      1 ∈ [1] ∧ 2 ∉ [1] ∧ 2 ∉ written s.trace ∧ 2 ∈ s.closed ∧ 3 ∈ [1, 3, 3] ∧
      (written s.trace).eraseDups = [1, 3, 4] := by
  refine ⟨⟨_, rfl⟩, ?_⟩
  decide

/-- Back-off: after six refused connects the delay is 200·2⁶ ms, after nine it is capped at 60 s. -/
example :
    (run init ((List.replicate 6 [Event.connectFail, Event.timerFired]).flatten)).delay = 12800 ∧
    (run init ((List.replicate 9 [Event.connectFail, Event.timerFired]).flatten)).delay = 60000 ∧
    (run init ((List.replicate 9 [Event.connectFail, Event.timerFired]).flatten ++ [.connectOk])).delay = 200 := by
  decide

end HS.C14
