import HotstuffModel.Proofs.BatchMaker
import HotstuffModel.Proofs.MempoolSync
/-!
# C11 — Batching keeps every transaction once, in order; batches are content-addressed

Model: `HS.BM` (`Model/BatchMaker.lean`).  `run cfg init es = .ok (s, bs)` says: the event list
`es` (transactions of any content incl. empty ones, timer expiries, in any order) was processed
without a panic, `bs` are the sealed batches in order and `s.cur` is the still open batch.
All theorems hold for every `batch_size` (0 included), every event sequence and both builds.

Build configurations: `cfg.benchmark` is the `benchmark` cargo feature, `cfg.lenFirst` the order of
the two tests in `seal`'s sample filter (`codeLenFirst` = what /repo has now).  For
`benchmark = false` or `lenFirst = true` there is no panic (`no_panic`), so the theorems below
apply to every run; for the current benchmark build the property is FALSE: an empty transaction
kills the task (`benchmark_empty_tx_panics`, defect F2).
-/
namespace HS.C11
open HS.BM

/-- Byte for byte, in order, exactly once: the sealed batches laid end to end, followed by the
open batch, are exactly the accepted transactions in arrival order.  (So every transaction sits
in exactly one position of exactly one batch, and nothing is invented, dropped, duplicated or
reordered.) -/
theorem sealed_batches_are_the_accepted_txs (cfg : Cfg) (es : List Ev) (s : State)
    (bs : List (List (List Nat))) (h : run cfg init es = .ok (s, bs)) :
    bs.flatten ++ s.cur = accepted es := by
  simpa [init] using (run_ok cfg init s es bs (inv_init cfg) h).2

/-- After every step the open batch is below the threshold or empty (for `batch_size = 0` it is
always empty), and `current_batch_size` is the sum of the lengths of its transactions. -/
theorem open_batch_below_threshold (cfg : Cfg) (es : List Ev) (s : State)
    (bs : List (List (List Nat))) (h : run cfg init es = .ok (s, bs)) :
    (s.cur = [] ∨ s.size < cfg.batchSize) ∧ s.size = (s.cur.map List.length).sum := by
  have := (run_ok cfg init s es bs (inv_init cfg) h).1
  exact ⟨this.2, this.1⟩

/-- As soon as the size threshold is reached: a transaction that lifts the open batch to
`batch_size` bytes or more is sealed, with everything before it, in that very step; one that does
not is appended and nothing is sealed. -/
theorem seal_when_threshold_reached (cfg : Cfg) (s s' : State) (t : List Nat)
    (outs : List (List (List Nat))) (h : step cfg s (.tx t) = .ok (s', outs)) :
    (cfg.batchSize ≤ s.size + t.length → outs = [s.cur ++ [t]] ∧ s'.cur = [] ∧ s'.size = 0) ∧
    (s.size + t.length < cfg.batchSize →
      outs = [] ∧ s'.cur = s.cur ++ [t] ∧ s'.size = s.size + t.length) := by
  simp only [step] at h
  refine ⟨?_, ?_⟩
  · intro hq
    rw [if_pos hq] at h
    obtain ⟨h1, h2⟩ := seal_ok cfg _ _ _ h
    subst h1; subst h2; exact ⟨rfl, rfl, rfl⟩
  · intro hq
    rw [if_neg (by omega)] at h
    cases h; exact ⟨rfl, rfl, rfl⟩

/-- At every timer expiry with a non-empty open batch the whole open batch is sealed; with an
empty one nothing happens (no empty batch is ever produced by the timer). -/
theorem seal_when_timer_fires (cfg : Cfg) (s s' : State) (outs : List (List (List Nat)))
    (h : step cfg s .timer = .ok (s', outs)) :
    (s.cur ≠ [] → outs = [s.cur] ∧ s'.cur = [] ∧ s'.size = 0) ∧ (s.cur = [] → outs = [] ∧ s' = s) := by
  simp only [step] at h
  refine ⟨?_, ?_⟩
  · intro hne
    have : s.cur.isEmpty = false := by simpa using hne
    rw [this] at h
    obtain ⟨h1, h2⟩ := seal_ok cfg _ _ _ h
    subst h1; subst h2; exact ⟨rfl, rfl, rfl⟩
  · intro he
    rw [he] at h
    cases h; exact ⟨rfl, rfl⟩

/-- A transaction is sealed by the next timer expiry at the latest: after any event sequence that
ends with a timer event, the open batch is empty and the sealed batches contain every accepted
transaction. -/
theorem sealed_by_next_timer (cfg : Cfg) (es : List Ev) (s : State) (bs : List (List (List Nat)))
    (h : run cfg init (es ++ [.timer]) = .ok (s, bs)) :
    s.cur = [] ∧ bs.flatten = accepted es := by
  obtain ⟨s1, b1, b2, h1, h2, h3⟩ := run_append_ok cfg init es [.timer] s bs h
  have hc := sealed_batches_are_the_accepted_txs cfg _ s bs h
  have hcur : s.cur = [] := by
    simp only [run] at h2
    cases hs : step cfg s1 .timer with
    | error p => simp [hs] at h2
    | ok r =>
      obtain ⟨s2, outs⟩ := r
      simp only [hs] at h2
      cases h2
      have := seal_when_timer_fires cfg s1 s outs hs
      by_cases he : s1.cur = []
      · rw [(this.2 he).2]; exact he
      · exact (this.1 he).2.1
  refine ⟨hcur, ?_⟩
  rw [hcur, accepted_append] at hc
  simpa [accepted] using hc

/-- No panic in the production build, and none in the benchmark build once the filter tests the
length first: every event sequence runs to completion. -/
theorem no_panic (cfg : Cfg) (hcfg : cfg.benchmark = false ∨ cfg.lenFirst = true)
    (s : State) (es : List Ev) : ∃ r, run cfg s es = .ok r := by
  apply run_no_panic
  intro b
  rcases hcfg with h | h <;> simp [scanPanics, h]

/-- The code as it is NOW: `codeLenFirst` is read from mempool/src/batch_maker.rs by the translator on
every run (Generated/Switches.lean).  No transaction sequence — empty transactions included — panics
the batch maker, in either build configuration.  (If the source tests `tx[0]` before the length this
theorem no longer type-checks and the check reports the failing input.) -/
theorem no_panic_current_code (cfg : Cfg) (hcfg : cfg.lenFirst = codeLenFirst)
    (s : State) (es : List Ev) : ∃ r, run cfg s es = .ok r :=
  no_panic cfg (Or.inr (by rw [hcfg]; rfl)) s es

/-- … and none in any build as long as no transaction is empty. -/
theorem no_panic_without_empty_tx (cfg : Cfg) (es : List Ev)
    (hne : ∀ t, Ev.tx t ∈ es → t ≠ []) : ∃ r, run cfg init es = .ok r := by
  suffices H : ∀ s : State, (∀ t ∈ s.cur, t ≠ []) → ∃ r, run cfg s es = .ok r from
    H init (by simp [init])
  induction es with
  | nil => intro s _; exact ⟨_, rfl⟩
  | cons e es ih =>
    intro s hs
    have hnp : ∀ s0 : State, (∀ t ∈ s0.cur, t ≠ []) → scanPanics cfg s0.cur = false := by
      intro s0 h0
      have : s0.cur.any (fun tx => tx.isEmpty) = false := by
        rw [List.any_eq_false]; intro t ht; simpa using h0 t ht
      simp [scanPanics, this]
    have ih' := ih (fun t ht => hne t (by simp [ht]))
    cases e with
    | tx t =>
      have ht : t ≠ [] := hne t (by simp)
      have hs' : ∀ x ∈ s.cur ++ [t], x ≠ [] := by
        intro x hx
        rcases List.mem_append.mp hx with hx | hx
        · exact hs x hx
        · simp at hx; rw [hx]; exact ht
      by_cases hq : cfg.batchSize ≤ s.size + t.length
      · have h1 : step cfg s (.tx t) = .ok ({ cur := [], size := 0 }, [s.cur ++ [t]]) := by
          simp only [step, if_pos hq]
          exact seal_no_panic cfg _ (hnp ⟨s.cur ++ [t], _⟩ hs')
        obtain ⟨⟨s2, bs⟩, h2⟩ := ih' { cur := [], size := 0 } (by simp)
        exact ⟨(s2, [s.cur ++ [t]] ++ bs), by simp [run, h1, h2]⟩
      · have h1 : step cfg s (.tx t) = .ok ({ cur := s.cur ++ [t], size := s.size + t.length }, []) := by
          simp only [step, if_neg hq]
        obtain ⟨⟨s2, bs⟩, h2⟩ := ih' { cur := s.cur ++ [t], size := s.size + t.length } hs'
        exact ⟨(s2, [] ++ bs), by simp [run, h1, h2]⟩
    | timer =>
      by_cases he : s.cur.isEmpty = true
      · have h1 : step cfg s .timer = .ok (s, []) := by simp [step, he]
        obtain ⟨⟨s2, bs⟩, h2⟩ := ih' s hs
        exact ⟨(s2, [] ++ bs), by simp [run, h1, h2]⟩
      · have h1 : step cfg s .timer = .ok ({ cur := [], size := 0 }, [s.cur]) := by
          simp only [step, he]
          exact seal_no_panic cfg _ (hnp s hs)
        obtain ⟨⟨s2, bs⟩, h2⟩ := ih' { cur := [], size := 0 } (by simp)
        exact ⟨(s2, [s.cur] ++ bs), by simp [run, h1, h2]⟩

/-- Defect F2, as a fact about the model of the current code: in the benchmark build with the
filter as written (`tx[0] == 0 && tx.len() > 8`), one empty transaction followed by the timer
(or by enough bytes to reach `batch_size`) panics the task; the later transaction is never sealed. -/
theorem benchmark_empty_tx_panics :
    run { batchSize := 10, benchmark := true, lenFirst := false } init [.tx [], .timer, .tx [1, 2, 3]]
      = .error .sealSampleScanIndex ∧
    run { batchSize := 2, benchmark := true, lenFirst := false } init [.tx [], .tx [7, 7]]
      = .error .sealSampleScanIndex := by
  decide

/-- The bincode layout of `MempoolMessage::Batch` is uniquely decodable: decoding the serialized
batch gives the batch back (all lengths fit a `u64`, as `usize` guarantees). -/
theorem decode_encode (batch : List (List Nat)) (hn : batch.length < 2 ^ 64)
    (ht : ∀ t ∈ batch, t.length < 2 ^ 64) : decodeBatch (encodeBatch batch) = some batch := by
  unfold decodeBatch decodeBatchPrefix encodeBatch
  simp only [List.cons_append, List.nil_append]
  rw [unle64_le64 _ hn]
  simp only
  have := decodeTxs_encodeTxs batch [] ht
  rw [List.append_nil] at this
  rw [this]

/-- Hence the serialization is injective … -/
theorem encode_injective (a b : List (List Nat)) (ha : a.length < 2 ^ 64) (hb : b.length < 2 ^ 64)
    (hat : ∀ t ∈ a, t.length < 2 ^ 64) (hbt : ∀ t ∈ b, t.length < 2 ^ 64)
    (h : encodeBatch a = encodeBatch b) : a = b := by
  have h1 := decode_encode a ha hat
  have h2 := decode_encode b hb hbt
  rw [h] at h1
  rw [h1] at h2
  exact Option.some.inj h2

/-- … and the store key of an own batch, `H(serialized)`, identifies the batch (content
addressing, under the hash assumption: `digestOf` is injective by construction). -/
theorem own_batch_key_identifies_batch (a b : List (List Nat))
    (ha : a.length < 2 ^ 64) (hb : b.length < 2 ^ 64)
    (hat : ∀ t ∈ a, t.length < 2 ^ 64) (hbt : ∀ t ∈ b, t.length < 2 ^ 64)
    (h : (processor (encodeBatch a)).1 = (processor (encodeBatch b)).1) : a = b := by
  apply encode_injective a b ha hb hat hbt
  simp only [processor, digestOf] at h
  exact Digest.mk.inj h

/-- The processor stores a batch under, and announces, the hash of the exact bytes it is given. -/
theorem processor_key_is_hash_of_exact_bytes (bytes : List Nat) :
    (processor bytes).1 = digestOf bytes ∧ (processor bytes).2.1 = bytes ∧ (processor bytes).2.2 = digestOf bytes :=
  ⟨rfl, rfl, rfl⟩

/-- A received batch frame reaches the processor as the exact received bytes (no
re-serialisation), so it is stored under the hash of the exact received bytes — also when the
frame carries trailing bytes after a well-formed batch, which `bincode::deserialize` accepts. -/
theorem received_batch_stored_under_hash_of_received_bytes (frame fwd : List Nat)
    (h : receiverHandler frame = some fwd) :
    fwd = frame ∧ (processor fwd).1 = digestOf frame ∧ (processor fwd).2.1 = frame := by
  unfold receiverHandler at h
  split at h
  · cases h; exact ⟨rfl, rfl, rfl⟩
  · cases h

/-- Every own sealed batch is accepted by the receiving side's handler and stored there under
the same key as at the sender. -/
theorem own_batch_same_key_at_receiver (batch : List (List Nat)) (hn : batch.length < 2 ^ 64)
    (ht : ∀ t ∈ batch, t.length < 2 ^ 64) :
    receiverHandler (encodeBatch batch) = some (encodeBatch batch) := by
  have := decode_encode batch hn ht
  unfold decodeBatch at this
  unfold receiverHandler
  split
  · rfl
  · rename_i hnone
    rw [hnone] at this
    cases this

/-- Non-vacuity: batch size 5, sizes 0, 2, 3 (threshold hit exactly), 9 (over), 1, then the timer,
an idle timer and a last transaction; with the encoding of the first sealed batch. -/
example :
    run { batchSize := 5 } init
        [.tx [], .tx [1, 2], .tx [3, 4, 5], .tx [9, 9, 9, 9, 9, 9, 9, 9, 9], .tx [7], .timer, .timer, .tx [8]]
      = .ok ({ cur := [[8]], size := 1 },
             [[[], [1, 2], [3, 4, 5]], [[9, 9, 9, 9, 9, 9, 9, 9, 9]], [[7]]]) ∧
    encodeBatch [[], [1, 2]] =
      [0, 0, 0, 0, 2, 0, 0, 0, 0, 0, 0, 0, 0, 0, 0, 0, 0, 0, 0, 0, 2, 0, 0, 0, 0, 0, 0, 0, 1, 2] ∧
    decodeBatch (encodeBatch [[], [1, 2]]) = some [[], [1, 2]] := by
  decide

end HS.C11

/-!
## mempool peer side

Model: `HS.MS` (`Model/MempoolSync.lean`): the receiver dispatch of `mempool.rs`, the `Processor`
that serves the batches received from other mempools, the `Helper` and the `Synchronizer`, on one
shared store.  `reach cfg es` is the state after the event list `es` from the initial state, `outs
cfg es` everything emitted on the way.  `cfg.hash` stands for SHA-512/256 and is arbitrary; byte
strings and digests are identifiers.  Every theorem is for EVERY finite event list (frames of the
three kinds, consensus commands, timer expiries, waiter completions, writes to the shared store by
other tasks, in any order).
-/
namespace HS.C11
-- keep the names of `HS.MS` in front of same-named ones of the node model (`HS.Event`, `HS.step`, …)
export HS.MS (Cfg Event Out State PEntry step run reach outs init lookup)
open HS.MS

/-- A batch frame received in any reachable state: it is ACKed, stored under the hash of exactly
the received bytes, and that digest — one, and no other — is handed to consensus; nothing else
changes; the bytes are readable under that key right away. -/
theorem peer_frame_stored_under_hash_of_its_bytes (cfg : Cfg) (es : List Event) (b : Nat) :
    step cfg (reach cfg es) (.batchFrame b) =
      ({ reach cfg es with store := (cfg.hash b, b) :: (reach cfg es).store },
       [.ack, .stored (cfg.hash b) b, .digestToConsensus (cfg.hash b)]) ∧
    lookup (step cfg (reach cfg es) (.batchFrame b)).1.store (cfg.hash b) = some b := by
  refine ⟨rfl, ?_⟩
  simp [step, lookup]

/-- Over a whole run: the digests handed to consensus are exactly the hashes of the received batch
frames, in arrival order (none missing, none invented, none twice unless the frame came twice), and
the store writes of the processor are exactly `(hash bytes, bytes)` for those frames, in order. -/
theorem peer_frames_announced_in_arrival_order (cfg : Cfg) (es : List Event) :
    announced (outs cfg es) = (frames es).map cfg.hash ∧
    storedOuts (outs cfg es) = (frames es).map (fun b => (cfg.hash b, b)) :=
  run_announced cfg init es

/-- The store after any run: reading key `d` returns the value of the LAST write to `d` (by a
received batch frame, under the hash of its bytes, or by another task of the node), and nothing if
there was none.  Nothing else in the model touches the store. -/
theorem peer_store_is_last_write (cfg : Cfg) (es : List Event) (d : Nat) :
    lookup (reach cfg es).store d = lastWrite cfg d es :=
  lookup_reach cfg es d

/-- Every batch frame ever received stays readable under the hash of its bytes; the value read is
exactly those bytes unless a different byte string with the same hash (a collision) arrived, or
another task overwrote that key. -/
theorem peer_frame_readable_afterwards (cfg : Cfg) (es : List Event) (b : Nat)
    (h : Event.batchFrame b ∈ es) :
    (lookup (reach cfg es).store (cfg.hash b)).isSome ∧
    ((∀ b', Event.batchFrame b' ∈ es → cfg.hash b' = cfg.hash b → b' = b) →
      (∀ v, Event.extWrite (cfg.hash b) v ∈ es → v = b) →
      lookup (reach cfg es).store (cfg.hash b) = some b) := by
  rw [lookup_reach]
  have hs := lastWrite_isSome cfg (cfg.hash b) es (.batchFrame b) b h rfl
  refine ⟨hs, ?_⟩
  intro hinj hext
  cases hl : lastWrite cfg (cfg.hash b) es with
  | none => rw [hl] at hs; simp at hs
  | some v =>
    obtain ⟨e, he, hw⟩ := lastWrite_some cfg _ es v hl
    cases e with
    | batchFrame b' =>
      simp only [writeOf, Option.some.injEq, Prod.mk.injEq] at hw
      have := hinj b' he hw.1
      rw [← hw.2, this]
    | extWrite d' v' =>
      simp only [writeOf, Option.some.injEq, Prod.mk.injEq] at hw
      obtain ⟨h1, h2⟩ := hw
      subst h1; subst h2
      rw [hext _ he]
    | _ => simp [writeOf] at hw

/-- A frame that does not decode changes nothing — store, pending requests, round — and is ACKed
like any other frame; the connection task goes on (the next event is processed normally: the model
has no "dead" state). -/
theorem peer_garbage_frame_only_acked (cfg : Cfg) (es : List Event) :
    step cfg (reach cfg es) .garbage = (reach cfg es, [.ack]) := rfl

/-- Every frame that arrives on the mempool port is ACKed exactly once, whatever it contains; no
other event produces an ACK. -/
theorem peer_every_frame_acked_once (cfg : Cfg) (es : List Event) :
    acks (outs cfg es) = (es.filter isFrame).length :=
  run_acks cfg init es

/-- Non-vacuity: two batch frames (ids 7 and 8, the second one twice), a garbage frame in
between, a write by another task; hash = +100. -/
example :
    let cfg : Cfg := { name := 1, members := [1, 2, 3, 4], gcDepth := 2, retryDelay := 5, retryNodes := 2,
                       hash := fun b => b + 100 }
    let es : List Event := [.batchFrame 7, .garbage, .batchFrame 8, .extWrite 55 9, .batchFrame 8]
    outs cfg es = [.ack, .stored 107 7, .digestToConsensus 107, .ack,
                   .ack, .stored 108 8, .digestToConsensus 108,
                   .ack, .stored 108 8, .digestToConsensus 108] ∧
    lookup (reach cfg es).store 107 = some 7 ∧ lookup (reach cfg es).store 55 = some 9 ∧
    lookup (reach cfg es).store 109 = none ∧ acks (outs cfg es) = 4 := by
  decide

end HS.C11
