import HotstuffModel.Proofs.Verify
import HotstuffModel.Model.Node
/-!
# C04 — Only correctly signed, quorum-backed messages influence a node

Signatures are ideal (DESIGN §3.4): a signature token verifies exactly for the key and the content
it was produced over; ed25519 itself is modelled, not verified.  Which fields a digest covers is
proved at byte level in C20; here `Block.digest` covers author, round, payload and parent,
`Vote`/`QC` cover (hash, round), `Timeout`/TC entries cover (round, high-QC round).
NOT under the author's signature (and constrained only by their own certificates): a block's
`qc.round`, the QC's vote list and the TC; a timeout's `high_qc.hash` and vote list.
-/
namespace HS.C04
open HS Node

/-! ### (1) acceptance implies well-formedness -/

/-- An accepted QC carries distinct committee members with stake, whose stake reaches the quorum,
and every signature in it verifies under the claimed member's key for exactly (hash, round). -/
theorem qc_accept_wellformed (c : Committee) (q : QC) (h : q.verify c = .ok ()) :
    q.signers.Nodup ∧ (∀ x ∈ q.signers, x ∈ c.keys ∧ 0 < c.stake x) ∧
    c.quorum ≤ c.weight q.signers ∧
    ∀ v ∈ q.votes, v.2.signer = v.1 ∧ v.2.content = .vote q.hash q.round := by
  obtain ⟨h1, h2, h3, h4⟩ := (QC.verify_ok_iff c q).mp h
  refine ⟨h1, ?_, h3, ?_⟩
  · intro x hx
    have hs := h2 x hx
    refine ⟨?_, by omega⟩
    apply Classical.byContradiction
    intro hn
    exact hs (Committee.stake_unknown c x hn)
  · intro v hv
    have := h4 v hv
    simpa [Sig.valid, QC.content] using this

/-- The same for timeout certificates; each entry is signed for (round, its reported high-QC round). -/
theorem tc_accept_wellformed (c : Committee) (t : TC) (h : t.verify c = .ok ()) :
    t.signers.Nodup ∧ (∀ x ∈ t.signers, x ∈ c.keys ∧ 0 < c.stake x) ∧
    c.quorum ≤ c.weight t.signers ∧
    ∀ v ∈ t.votes, v.2.1.signer = v.1 ∧ v.2.1.content = .timeout t.round v.2.2 := by
  obtain ⟨h1, h2, h3, h4⟩ := (TC.verify_ok_iff c t).mp h
  refine ⟨h1, ?_, h3, ?_⟩
  · intro x hx
    have hs := h2 x hx
    refine ⟨?_, by omega⟩
    apply Classical.byContradiction
    intro hn
    exact hs (Committee.stake_unknown c x hn)
  · intro v hv
    have := h4 v hv
    simpa [Sig.valid] using this

/-- An accepted proposal is signed by its author (a staked member) over its own digest, its QC is
the genesis QC or an accepted QC, and its TC (if any) is an accepted TC. -/
theorem block_accept_wellformed (c : Committee) (b : Block) (h : b.verify c = .ok ()) :
    0 < c.stake b.author ∧ b.sig.signer = b.author ∧ b.sig.content = .block b.digest ∧
    (b.qc.isGenesis = true ∨ b.qc.verify c = .ok ()) ∧ (∀ tc, b.tc = some tc → tc.verify c = .ok ()) := by
  obtain ⟨h1, h2, h3, h4⟩ := (Block.verify_ok_iff c b).mp h
  have : b.sig.signer = b.author ∧ b.sig.content = .block b.digest := by simpa [Sig.valid] using h2
  exact ⟨by omega, this.1, this.2, h3, h4⟩

theorem vote_accept_wellformed (c : Committee) (v : Vote) (h : v.verify c = .ok ()) :
    0 < c.stake v.author ∧ v.sig.signer = v.author ∧ v.sig.content = .vote v.hash v.round := by
  obtain ⟨h1, h2⟩ := (Vote.verify_ok_iff c v).mp h
  have : v.sig.signer = v.author ∧ v.sig.content = .vote v.hash v.round := by
    simpa [Sig.valid, Vote.content] using h2
  exact ⟨by omega, this.1, this.2⟩

theorem timeout_accept_wellformed (c : Committee) (t : Timeout) (h : t.verify c = .ok ()) :
    0 < c.stake t.author ∧ t.sig.signer = t.author ∧ t.sig.content = .timeout t.round t.highQC.round ∧
    (t.highQC.isGenesis = true ∨ t.highQC.verify c = .ok ()) := by
  obtain ⟨h1, h2, h3⟩ := (Timeout.verify_ok_iff c t).mp h
  have : t.sig.signer = t.author ∧ t.sig.content = .timeout t.round t.highQC.round := by
    simpa [Sig.valid, Timeout.content] using h2
  exact ⟨by omega, this.1, this.2, h3⟩

/-! ### (2) tampering implies rejection -/

/-- A signature verifies for one key and one content only: it cannot be moved to another message,
round, block, or message type, nor attributed to another member. -/
theorem signature_not_transferable (s : Sig) (c c' : Content) (k k' : Nat)
    (h : s.valid c k = true) (hne : c' ≠ c ∨ k' ≠ k) : s.valid c' k' = false := by
  simp [Sig.valid] at h ⊢
  intro hk hc
  rcases hne with hne | hne
  · exact hne (by rw [← hc, h.2])
  · exact hne (by rw [← hk, h.1])

/-- Altering any signed field of a proposal (author, round, payload, parent) while keeping the
signature makes it be rejected. -/
theorem block_tamper_rejected (c : Committee) (b b' : Block) (h : b.verify c = .ok ())
    (hs : b'.sig = b.sig) (hd : b'.digest ≠ b.digest ∨ b'.author ≠ b.author) :
    b'.verify c ≠ .ok () := by
  intro h'
  have w := block_accept_wellformed c b h
  have w' := block_accept_wellformed c b' h'
  rw [hs] at w'
  rcases hd with hd | hd
  · apply hd
    have := w'.2.2.1.symm.trans w.2.2.1
    simpa using this
  · exact hd (w'.2.1.symm.trans w.2.1)

/-- A vote signature moved to another block hash, round, or author is rejected. -/
theorem vote_tamper_rejected (c : Committee) (v v' : Vote) (h : v.verify c = .ok ())
    (hs : v'.sig = v.sig) (hd : v'.hash ≠ v.hash ∨ v'.round ≠ v.round ∨ v'.author ≠ v.author) :
    v'.verify c ≠ .ok () := by
  intro h'
  have w := vote_accept_wellformed c v h
  have w' := vote_accept_wellformed c v' h'
  rw [hs] at w'
  have e := w'.2.2.symm.trans w.2.2
  simp only [Content.vote.injEq] at e
  rcases hd with hd | hd | hd
  · exact hd e.1
  · exact hd e.2
  · exact hd (w'.2.1.symm.trans w.2.1)

/-- A timeout signature moved to another round, another high-QC round, or another author is rejected. -/
theorem timeout_tamper_rejected (c : Committee) (t t' : Timeout) (h : t.verify c = .ok ())
    (hs : t'.sig = t.sig)
    (hd : t'.round ≠ t.round ∨ t'.highQC.round ≠ t.highQC.round ∨ t'.author ≠ t.author) :
    t'.verify c ≠ .ok () := by
  intro h'
  have w := timeout_accept_wellformed c t h
  have w' := timeout_accept_wellformed c t' h'
  rw [hs] at w'
  have e := w'.2.2.1.symm.trans w.2.2.1
  simp only [Content.timeout.injEq] at e
  rcases hd with hd | hd | hd
  · exact hd e.1
  · exact hd e.2
  · exact hd (w'.2.1.symm.trans w.2.1)

/-- A QC with a repeated signer, a signer without stake (non-member or zero-stake member),
less than quorum weight, or one signature for another (hash, round) / of another kind is rejected. -/
theorem qc_defect_rejected (c : Committee) (q : QC)
    (hd : ¬ q.signers.Nodup ∨ (∃ x ∈ q.signers, c.stake x = 0) ∨ c.weight q.signers < c.quorum ∨
      (∃ v ∈ q.votes, v.2.signer ≠ v.1 ∨ v.2.content ≠ .vote q.hash q.round)) :
    q.verify c ≠ .ok () := by
  intro h
  obtain ⟨h1, h2, h3, h4⟩ := qc_accept_wellformed c q h
  rcases hd with hd | ⟨x, hx, hs⟩ | hd | ⟨v, hv, hd⟩
  · exact hd h1
  · have := (h2 x hx).2; omega
  · omega
  · have := h4 v hv
    rcases hd with hd | hd
    · exact hd this.1
    · exact hd this.2

theorem tc_defect_rejected (c : Committee) (t : TC)
    (hd : ¬ t.signers.Nodup ∨ (∃ x ∈ t.signers, c.stake x = 0) ∨ c.weight t.signers < c.quorum ∨
      (∃ v ∈ t.votes, v.2.1.signer ≠ v.1 ∨ v.2.1.content ≠ .timeout t.round v.2.2)) :
    t.verify c ≠ .ok () := by
  intro h
  obtain ⟨h1, h2, h3, h4⟩ := tc_accept_wellformed c t h
  rcases hd with hd | ⟨x, hx, hs⟩ | hd | ⟨v, hv, hd⟩
  · exact hd h1
  · have := (h2 x hx).2; omega
  · omega
  · have := h4 v hv
    rcases hd with hd | hd
    · exact hd this.1
    · exact hd this.2

/-- A block whose embedded (non-genesis) QC or TC is defective is rejected as a whole. -/
theorem block_with_bad_certificate_rejected (c : Committee) (b : Block)
    (hd : (b.qc.isGenesis = false ∧ b.qc.verify c ≠ .ok ()) ∨ (∃ tc, b.tc = some tc ∧ tc.verify c ≠ .ok ())) :
    b.verify c ≠ .ok () := by
  intro h
  obtain ⟨_, _, _, h3, h4⟩ := block_accept_wellformed c b h
  rcases hd with ⟨hg, hq⟩ | ⟨tc, htc, hq⟩
  · rcases h3 with h3 | h3
    · rw [hg] at h3; cases h3
    · exact hq h3
  · exact hq (h4 tc htc)

/-! ### (3) a rejected message changes nothing -/

/-- A proposal that is not by the round's leader, or does not verify, leaves the node in
literally the same state (ghost history included) and produces no output. -/
theorem rejected_proposal_no_effect (c : Committee) (s : Node) (b : Block)
    (h : b.author ≠ c.leader b.round ∨ b.verify c ≠ .ok ()) :
    step c s (.msg (.propose b)) = s := by
  unfold step
  split
  · rfl
  · simp only [handleProposal]
    rcases h with h | h
    · simp [h]
    · split
      · rfl
      · split
        · rfl
        · rename_i u hu
          cases u
          exact absurd hu h

theorem rejected_vote_no_effect (c : Committee) (s : Node) (v : Vote) (h : v.verify c ≠ .ok ()) :
    step c s (.msg (.vote v)) = s := by
  unfold step
  split
  · rfl
  · simp only [handleVote]
    split
    · rfl
    · split
      · rfl
      · rename_i u hu
        cases u
        exact absurd hu h

theorem rejected_timeout_no_effect (c : Committee) (s : Node) (t : Timeout) (h : t.verify c ≠ .ok ()) :
    step c s (.msg (.timeout t)) = s := by
  unfold step
  split
  · rfl
  · simp only [handleTimeout]
    split
    · rfl
    · split
      · rfl
      · rename_i u hu
        cases u
        exact absurd hu h

theorem rejected_tc_no_effect (c : Committee) (s : Node) (t : TC) (h : t.verify c ≠ .ok ()) :
    step c s (.msg (.tc t)) = s := by
  unfold step
  split
  · rfl
  · simp only [handleTC]
    split
    · rfl
    · rename_i u hu
      cases u
      exact absurd hu h

/-- Hence the node's whole subsequent behaviour is the same with and without the rejected message. -/
theorem rejected_message_subsequent_behaviour_unchanged (c : Committee) (s : Node) (e : Event)
    (es : List Event) (h : step c s e = s) : run c s (e :: es) = run c s es := by
  simp [run, h]

/-- Non-vacuity: a QC signed by three of four equal members verifies; dropping one signer,
repeating one, or using a vote signature for another round does not. -/
example :
    let c : Committee := ⟨[(1, 1), (2, 1), (3, 1), (4, 1)]⟩
    let d : Digest := .block 2 1 [] .zero
    let sg (k r : Nat) : Nat × Sig := (k, ⟨k, .vote d r⟩)
    (QC.verify c ⟨d, 1, [sg 1 1, sg 2 1, sg 4 1]⟩).toBool = true ∧
    (QC.verify c ⟨d, 1, [sg 1 1, sg 2 1]⟩).toBool = false ∧
    (QC.verify c ⟨d, 1, [sg 1 1, sg 2 1, sg 2 1]⟩).toBool = false ∧
    (QC.verify c ⟨d, 1, [sg 1 1, sg 2 1, sg 4 2]⟩).toBool = false ∧
    (QC.verify c ⟨d, 1, [sg 1 1, sg 2 1, sg 9 1]⟩).toBool = false := by
  decide

end HS.C04
