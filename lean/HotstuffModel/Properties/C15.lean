import HotstuffModel.Proofs.Reachable
/-!
# C15 (node part) — no input can make a consensus task panic

Panics are values of the model (`Node.panic`, set where the Rust has `expect`/`unwrap`/`[i]`):
`make_vote`'s "Empty TC", `commit`'s and `get_ancestors`' "we should have all the ancestors",
`process_block`'s "next leader is not in the committee", the synchronizer's "author of valid block
is not in the committee", the helper's "failed to deserialize our own block".  The decoding half of
C15 (frames, keys) is in Properties/C15_decode.lean.

Quantifier: EVERY finite sequence of micro-steps with arbitrary decoded messages (any rounds, any
certificates, any signature validity pattern), sync requests for arbitrary digests — including
digests that name the mempool's batches in the shared store — from arbitrary origins, batches,
timer expiries, in any order.  `Core`'s `_ => panic!("Unexpected protocol message")` arm is not a
model site: `ConsensusReceiverHandler::dispatch` routes `SyncRequest` to the helper, so `Core`
only ever receives the four kinds of `Msg` (tied by the cons engine, which sends SyncRequests
through the real receiver).  Not covered (DESIGN §7 C15): arithmetic overflow of `round + 1` at
2^64−1 (needs a quorum-signed certificate of that round), allocation failure.
-/
namespace HS.C15
open HS Node

/-- No reachable state has panicked: no `expect`/`unwrap` in Core, Proposer, Synchronizer,
PayloadWaiter or Helper fires, whatever the inputs.  (`rfl` below is `Gen.helperSkipsNonBlock = true`,
read from consensus/src/helper.rs on every run: if the helper `expect`s again, this does not type-check.) -/
theorem node_never_panics (c : Committee) (name : Nat) (hd : Deploy c name) (es : List Event) :
    (run c (init c name) es).panic = none :=
  (reachable_inv4 c name hd rfl es).noPanic

/-- Hence every task stays alive: any further event is still processed by the same step function
(a panicked node would ignore it), in particular proposals, sync requests and mempool digests. -/
theorem node_stays_responsive (c : Committee) (name : Nat) (hd : Deploy c name) (es : List Event)
    (e : Event) : (run c (init c name) es).panic.isSome = false := by
  rw [node_never_panics c name hd es]; rfl

/-- The store never loses the closure that `commit` and `get_ancestors` rely on: every stored block
is stored under its own digest, and its parent is stored too (or it extends genesis). -/
theorem store_closed_under_parents (c : Committee) (name : Nat) (hd : Deploy c name) (es : List Event) :
    let s := run c (init c name) es
    (∀ d b, (d, b) ∈ s.store → b.digest = d) ∧
    (∀ d b, (d, b) ∈ s.store → b.qc.isGenesis = true ∨ (s.store.lookup b.parent).isSome = true) :=
  ⟨(reachable_inv4 c name hd rfl es).keyed, (reachable_inv4 c name hd rfl es).closed⟩

/-- Non-vacuity: a sync request naming a batch digest (the shared-store case, F4) and a block whose
TC is empty are both survived. -/
example :
    let c : Committee := ⟨[(1, 1), (2, 1), (3, 1), (4, 1)]⟩
    let bad : Block := { qc := QC.genesis, tc := some ⟨0, []⟩, author := 2, round := 1, payload := [],
                         sig := ⟨2, .block (.block 2 1 [] .zero)⟩ }
    (run c (init c 3) [.batch 5, .helper (.raw 5) 1, .msg (.propose bad), .timer]).panic = none := by
  decide

end HS.C15
