import HotstuffModel.Proofs.Preimage
import HotstuffModel.Proofs.BincodeWF
/-!
# C20 — Message identity: digests bind content and survive wire and store round trips

Byte-level statements about the model in `Model/{Bytes,Base64,Bincode,Preimage}.lean`, which the engine
`codec` of the harness ties to the real `digest()`, `bincode::serialize` and `bincode::deserialize`
byte for byte.

Every digest in the code is `SHA-512(pre-image)[..32]`.  The hash function is **not** modelled: the
theorems below take an arbitrary function `H` and conclude "… or `H` has a collision on two *different,
explicitly given* pre-images".  **Collision-freeness of SHA-512 truncated to 32 bytes on the pre-images
that occur is the one remaining assumption of C20**; everything else (layouts are injective in their
fields, kinds are separated by length, (de)serialisation preserves every field) is proved here.
-/
namespace HS.C20
open HS.Wire

/-- Two different inputs with the same hash value. -/
def Collision (H : List UInt8 → List UInt8) (x y : List UInt8) : Prop := x ≠ y ∧ H x = H y

/-- What the Rust types guarantee about the fields that enter a block digest. -/
@[reducible] def BlockFieldsWF (b : Block) : Prop :=
  b.author.length = 32 ∧ b.round < 2 ^ 64 ∧ (∀ d ∈ b.payload, d.length = 32) ∧ b.qc.hash.length = 32

/-! ## Layouts are injective in their fields -/

/-- Block pre-image `author(32) ‖ le64 round ‖ payload digests(32 each) ‖ parent(32)`: equal pre-images
force equal author, round, payload list (length and every digest) and parent — for every payload length. -/
theorem block_preimage_injective (b b' : Block) (h : BlockFieldsWF b) (h' : BlockFieldsWF b')
    (e : b.pre = b'.pre) :
    b.author = b'.author ∧ b.round = b'.round ∧ b.payload = b'.payload ∧ b.qc.hash = b'.qc.hash :=
  blockPre_inj _ _ _ _ _ _ _ _ h.1 h'.1 h.2.1 h'.2.1 h.2.2.1 h'.2.2.1 h.2.2.2 h'.2.2.2 e

/-- Vote pre-image `hash(32) ‖ le64 round` is injective in (hash, round). -/
theorem vote_preimage_injective (v v' : Vote) (hh : v.hash.length = 32) (hh' : v'.hash.length = 32)
    (hr : v.round < 2 ^ 64) (hr' : v'.round < 2 ^ 64) (e : v.pre = v'.pre) :
    v.hash = v'.hash ∧ v.round = v'.round :=
  votePre_inj _ _ _ _ hh hh' hr hr' e

/-- QC pre-image (same layout as a vote) is injective in (hash, round). -/
theorem qc_preimage_injective (q q' : QC) (hh : q.hash.length = 32) (hh' : q'.hash.length = 32)
    (hr : q.round < 2 ^ 64) (hr' : q'.round < 2 ^ 64) (e : q.pre = q'.pre) :
    q.hash = q'.hash ∧ q.round = q'.round :=
  votePre_inj _ _ _ _ hh hh' hr hr' e

/-- A vote and a QC have the same pre-image exactly when they speak about the same (hash, round):
by design a QC is verified against the digest its votes signed. -/
theorem vote_qc_preimage_eq_iff (v : Vote) (q : QC) (hh : v.hash.length = 32) (hh' : q.hash.length = 32)
    (hr : v.round < 2 ^ 64) (hr' : q.round < 2 ^ 64) :
    v.pre = q.pre ↔ (v.hash = q.hash ∧ v.round = q.round) := by
  constructor
  · exact votePre_inj _ _ _ _ hh hh' hr hr'
  · intro ⟨h1, h2⟩; unfold Vote.pre QC.pre; rw [h1, h2]

/-- Timeout pre-image `le64 round ‖ le64 high_qc.round` is injective in (round, high-QC round). -/
theorem timeout_preimage_injective (t t' : Timeout) (hr : t.round < 2 ^ 64) (hr' : t'.round < 2 ^ 64)
    (hq : t.highQc.round < 2 ^ 64) (hq' : t'.highQc.round < 2 ^ 64) (e : t.pre = t'.pre) :
    t.round = t'.round ∧ t.highQc.round = t'.highQc.round :=
  timeoutPre_inj _ _ _ _ hr hr' hq hq' e

/-- The pre-image each TC entry is verified against is the pre-image of the timeout it came from, and is
injective in (TC round, entry's high-QC round). -/
theorem tc_entry_preimage (tc : TC) (e : List UInt8 × Sig × Nat) (t : Timeout)
    (h1 : t.round = tc.round) (h2 : t.highQc.round = e.2.2) : tc.entryPre e = t.pre := by
  unfold TC.entryPre Timeout.pre; rw [h1, h2]

theorem tc_entry_preimage_injective (tc tc' : TC) (e e' : List UInt8 × Sig × Nat)
    (hr : tc.round < 2 ^ 64) (hr' : tc'.round < 2 ^ 64) (hq : e.2.2 < 2 ^ 64) (hq' : e'.2.2 < 2 ^ 64)
    (h : tc.entryPre e = tc'.entryPre e') : tc.round = tc'.round ∧ e.2.2 = e'.2.2 :=
  timeoutPre_inj _ _ _ _ hr hr' hq hq' h

/-! ## Domain separation: the three kinds have pairwise different pre-image lengths -/

/-- Lengths: block `72 + 32·|payload|`, vote/QC `40`, timeout/TC-entry `16`. -/
theorem preimage_lengths (b : Block) (v : Vote) (t : Timeout) (hb : BlockFieldsWF b)
    (hv : v.hash.length = 32) :
    b.pre.length = 72 + 32 * b.payload.length ∧ v.pre.length = 40 ∧ t.pre.length = 16 :=
  ⟨blockPre_length _ _ _ _ hb.1 hb.2.2.1 hb.2.2.2, votePre_length _ _ hv, timeoutPre_length _ _⟩

/-- No pre-image of one kind equals a pre-image of another kind (whatever the field values). -/
theorem kinds_separated (b : Block) (v : Vote) (q : QC) (t : Timeout) (tc : TC)
    (e : List UInt8 × Sig × Nat) (hb : BlockFieldsWF b) (hv : v.hash.length = 32)
    (hq : q.hash.length = 32) :
    b.pre ≠ v.pre ∧ b.pre ≠ q.pre ∧ b.pre ≠ t.pre ∧ b.pre ≠ tc.entryPre e ∧
    v.pre ≠ t.pre ∧ v.pre ≠ tc.entryPre e ∧ q.pre ≠ t.pre ∧ q.pre ≠ tc.entryPre e := by
  have lb : b.pre.length = 72 + 32 * b.payload.length := blockPre_length _ _ _ _ hb.1 hb.2.2.1 hb.2.2.2
  have lv : v.pre.length = 40 := votePre_length _ _ hv
  have lq : q.pre.length = 40 := votePre_length _ _ hq
  have lt : t.pre.length = 16 := timeoutPre_length _ _
  have le : (tc.entryPre e).length = 16 := timeoutPre_length _ _
  refine ⟨?_, ?_, ?_, ?_, ?_, ?_, ?_, ?_⟩ <;> (intro h; have := congrArg List.length h; omega)

/-! ## Digests: equal digests mean equal fields, or an explicit hash collision -/

/-- Blocks with equal digests agree on author, round, payload and parent — or the two (different)
block pre-images are a collision of the hash function. -/
theorem block_digest_binds (H : List UInt8 → List UInt8) (b b' : Block) (h : BlockFieldsWF b)
    (h' : BlockFieldsWF b') (e : H b.pre = H b'.pre) :
    (b.author = b'.author ∧ b.round = b'.round ∧ b.payload = b'.payload ∧ b.qc.hash = b'.qc.hash)
    ∨ Collision H b.pre b'.pre := by
  by_cases hp : b.pre = b'.pre
  · exact Or.inl (block_preimage_injective b b' h h' hp)
  · exact Or.inr ⟨hp, e⟩

/-- Votes (and likewise QCs) with equal digests speak about the same block hash and round, or the hash
function collides. -/
theorem vote_digest_binds (H : List UInt8 → List UInt8) (v v' : Vote) (hh : v.hash.length = 32)
    (hh' : v'.hash.length = 32) (hr : v.round < 2 ^ 64) (hr' : v'.round < 2 ^ 64)
    (e : H v.pre = H v'.pre) : (v.hash = v'.hash ∧ v.round = v'.round) ∨ Collision H v.pre v'.pre := by
  by_cases hp : v.pre = v'.pre
  · exact Or.inl (vote_preimage_injective v v' hh hh' hr hr' hp)
  · exact Or.inr ⟨hp, e⟩

theorem qc_digest_binds (H : List UInt8 → List UInt8) (q q' : QC) (hh : q.hash.length = 32)
    (hh' : q'.hash.length = 32) (hr : q.round < 2 ^ 64) (hr' : q'.round < 2 ^ 64)
    (e : H q.pre = H q'.pre) : (q.hash = q'.hash ∧ q.round = q'.round) ∨ Collision H q.pre q'.pre := by
  by_cases hp : q.pre = q'.pre
  · exact Or.inl (qc_preimage_injective q q' hh hh' hr hr' hp)
  · exact Or.inr ⟨hp, e⟩

/-- Timeouts (and TC entries) with equal digests agree on round and high-QC round, or the hash collides. -/
theorem timeout_digest_binds (H : List UInt8 → List UInt8) (t t' : Timeout) (hr : t.round < 2 ^ 64)
    (hr' : t'.round < 2 ^ 64) (hq : t.highQc.round < 2 ^ 64) (hq' : t'.highQc.round < 2 ^ 64)
    (e : H t.pre = H t'.pre) :
    (t.round = t'.round ∧ t.highQc.round = t'.highQc.round) ∨ Collision H t.pre t'.pre := by
  by_cases hp : t.pre = t'.pre
  · exact Or.inl (timeout_preimage_injective t t' hr hr' hq hq' hp)
  · exact Or.inr ⟨hp, e⟩

/-- A digest signed for one kind (proposal / vote-QC / timeout-TC) equals a digest of another kind only
if the hash function collides: a signature cannot be moved between kinds. -/
theorem cross_kind_digest_is_collision (H : List UInt8 → List UInt8) (b : Block) (v : Vote) (t : Timeout)
    (hb : BlockFieldsWF b) (hv : v.hash.length = 32) :
    (H b.pre = H v.pre → Collision H b.pre v.pre) ∧
    (H b.pre = H t.pre → Collision H b.pre t.pre) ∧
    (H v.pre = H t.pre → Collision H v.pre t.pre) := by
  have s := kinds_separated b v ⟨v.hash, v.round, []⟩ t ⟨0, []⟩ ([], ⟨[], []⟩, 0) hb hv hv
  exact ⟨fun e => ⟨s.1, e⟩, fun e => ⟨s.2.2.1, e⟩, fun e => ⟨s.2.2.2.2.1, e⟩⟩

/-! ## Serialisation round trips preserve every field (hence pre-image, digest, verifiability) -/

/-- `bincode::deserialize(bincode::serialize(m) ‖ trailing)` gives back exactly `m` (and leaves the
trailing bytes), for every well-formed consensus message, with the current and with the repaired key
decoder. -/
theorem wire_roundtrip_consensus (c : Bool) (m : CMsg) (rest : List UInt8) (h : m.WF) :
    (decCMsg c).run (encCMsg m ++ rest) = .ok (m, rest) := decCMsg_enc c m rest h

/-- Same for mempool messages (`Batch`, `BatchRequest`). -/
theorem wire_roundtrip_mempool (c : Bool) (m : MMsg) (rest : List UInt8) (h : m.WF) :
    (decMMsg c).run (encMMsg m ++ rest) = .ok (m, rest) := decMMsg_enc c m rest h

/-- A block written to the store (`bincode::serialize(&block)`) and read back is the same block. -/
theorem store_roundtrip_block (c : Bool) (b : Block) (rest : List UInt8) (h : b.WF) :
    (decBlock c).run (encBlock b ++ rest) = .ok (b, rest) := decBlock_enc c b rest h

/-- The sync path (`store_block` → `Helper` → `Propose` frame → receiver) delivers exactly the stored
block; the frame is the same frame the original proposer broadcast. -/
theorem sync_path_preserves_block (c : Bool) (b : Block) (h : b.WF) :
    syncPath c (encBlock b) = .ok (encCMsg (.propose b), .propose b) := by
  unfold syncPath
  have h1 := decBlock_enc c b [] h
  have h2 := decCMsg_enc c (.propose b) [] h
  simp only [List.append_nil] at h1 h2
  rw [h1]
  simp only [h2]

/-- Hence the message read back has the same signed pre-image (so the same digest under any hash
function), the same author and the same signature bytes: it verifies iff the original does. -/
theorem roundtrip_preserves_digest_preimage (c : Bool) (m : CMsg) (rest : List UInt8) (h : m.WF) :
    ∃ m' rest', (decCMsg c).run (encCMsg m ++ rest) = .ok (m', rest') ∧ m' = m ∧ m'.pre = m.pre :=
  ⟨m, rest, decCMsg_enc c m rest h, rfl, rfl⟩

/-- The batch digest pre-image is the serialized `Batch` message; a stored batch decodes to the batch
that was serialised, so the digest identifies the transactions. -/
theorem batch_preimage_roundtrip (c : Bool) (txs : List (List UInt8)) (h : (MMsg.batch txs).WF) :
    (decMMsg c).run (batchPre txs) = .ok (.batch txs, []) := by
  have := decMMsg_enc c (.batch txs) [] h
  simpa [batchPre] using this

/-- Consequently different batches have different pre-images. -/
theorem batch_preimage_injective (txs txs' : List (List UInt8)) (h : (MMsg.batch txs).WF)
    (h' : (MMsg.batch txs').WF) (e : batchPre txs = batchPre txs') : txs = txs' := by
  have a := batch_preimage_roundtrip false txs h
  have b := batch_preimage_roundtrip false txs' h'
  rw [e] at a
  have hab : (Res.ok (MMsg.batch txs, ([] : List UInt8))) = Res.ok (MMsg.batch txs', []) := a.symm.trans b
  have h1 : (MMsg.batch txs, ([] : List UInt8)) = (MMsg.batch txs', []) := Res.ok.inj hab
  have h2 : MMsg.batch txs = MMsg.batch txs' := congrArg Prod.fst h1
  exact MMsg.batch.inj h2

/-! ## Everything a node can receive is well-formed, so the theorems above apply to received messages -/

/-- Whatever byte string arrives, if the decoder accepts it the resulting consensus message is
well-formed (32-byte digests/keys/signature halves, rounds and lengths below 2^64). -/
theorem decoded_consensus_message_wellformed (c : Bool) (bs r : List UInt8) (m : CMsg)
    (h : (decCMsg c).run bs = .ok (m, r)) : m.WF := decCMsg_wf c bs m r h

theorem decoded_mempool_message_wellformed (c : Bool) (bs r : List UInt8) (m : MMsg)
    (h : (decMMsg c).run bs = .ok (m, r)) : m.WF := decMMsg_wf c bs m r h

theorem decoded_block_wellformed (c : Bool) (bs r : List UInt8) (b : Block)
    (h : (decBlock c).run bs = .ok (b, r)) : b.WF := decBlock_wf c bs b r h

/-- Re-serialising a received message and reading it again is the identity (relaying, storing and
re-sending never alters a message), whatever bytes it originally came from. -/
theorem reencode_received (c : Bool) (bs r : List UInt8) (m : CMsg) (h : (decCMsg c).run bs = .ok (m, r)) :
    (decCMsg c).run (encCMsg m) = .ok (m, []) := by
  have := decCMsg_enc c m [] (decCMsg_wf c bs m r h)
  simpa using this

/-- Two blocks received from the wire / read from the store (from arbitrary bytes) that have the same
digest agree on author, round, payload and parent — or exhibit a hash collision. -/
theorem received_blocks_digest_binds (H : List UInt8 → List UInt8) (c : Bool) (bs bs' r r' : List UInt8)
    (b b' : Block) (h : (decBlock c).run bs = .ok (b, r)) (h' : (decBlock c).run bs' = .ok (b', r'))
    (e : H b.pre = H b'.pre) :
    (b.author = b'.author ∧ b.round = b'.round ∧ b.payload = b'.payload ∧ b.qc.hash = b'.qc.hash)
    ∨ Collision H b.pre b'.pre := by
  have w := decBlock_wf c bs b r h
  have w' := decBlock_wf c bs' b' r' h'
  exact block_digest_binds H b b' ⟨w.2.2.1, w.2.2.2.1, w.2.2.2.2.2.1, w.1.1⟩
    ⟨w'.2.2.1, w'.2.2.2.1, w'.2.2.2.2.2.1, w'.1.1⟩ e

/-! ## Non-vacuity -/

/-- A concrete block with a TC, a non-empty payload and a QC with one vote is well-formed (so the
round-trip theorems apply to it), its pre-image has the stated length. -/
example :
    let k : List UInt8 := List.replicate 32 7
    let d : List UInt8 := List.replicate 32 9
    let s : Sig := ⟨List.replicate 32 1, List.replicate 32 2⟩
    let b : Block := ⟨⟨d, 3, [(k, s)]⟩, some ⟨4, [(k, s, 2)]⟩, k, 5, [d, k], s⟩
    b.WF ∧ BlockFieldsWF b ∧ b.pre.length = 72 + 32 * 2 := by
  decide

/-- A small frame evaluated through the model (not through the theorem): a `SyncRequest` with trailing
bytes decodes to the request and leaves the trailing bytes. -/
example :
    let k : List UInt8 := List.replicate 32 7
    let d : List UInt8 := List.replicate 32 9
    (CMsg.syncRequest d k).WF ∧
    (decCMsg false).run (encCMsg (.syncRequest d k) ++ [1, 2, 3]) = .ok (.syncRequest d k, [1, 2, 3]) := by
  decide

/-- Boundary-adjacent pair: moving a digest from the end of the payload into the parent slot changes
the pre-image (here even its length), as the injectivity theorem says. -/
example :
    let d1 : List UInt8 := List.replicate 32 1
    let d2 : List UInt8 := List.replicate 32 2
    let p : List UInt8 := List.replicate 32 3
    blockPre d1 0 [d1, d2] p ≠ blockPre d1 0 [d1] d2 ∧ blockPre d1 0 [d1] d2 ≠ blockPre d1 0 [d2] d1 := by
  decide

end HS.C20
