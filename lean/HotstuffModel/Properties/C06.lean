import HotstuffModel.Proofs.Reachable
import HotstuffModel.Proofs.NodeInv6
import HotstuffModel.Proofs.CommitLive
import HotstuffModel.Proofs.LeaderWindow
import HotstuffModel.Proofs.PacemakerStuck
import HotstuffModel.Model.Timer
import HotstuffModel.Proofs.ProposerWait
import HotstuffModel.Properties.C17
/-!
# C06 — Liveness with up to f crashed nodes (PARTIAL: enabling lemmas)

The temporal claim ("from some point on … every live node's committed round keeps growing") needs
a fairness/real-time model of timers and TCP back-off that this development does not have.  What is
proved here, for every state / every input, are the progress steps the liveness argument is made of;
the claim itself is explored on the real code by the `netsim` engine (4–7 real nodes, every choice
of ≤ f crashed nodes and crash instants, random pre-stabilisation delays and cuts, then a stable
network: each live node must commit within every window of (4(f+1)+6) timeouts).
-/
namespace HS.C06
open HS Node

/-- (L1) The local timer always produces a signed timeout for the current round carrying the
current high QC — whatever the state — and bumps `last_voted_round` to the round. -/
theorem timer_always_yields_timeout (c : Committee) (s : Node) :
    ∃ t : Timeout, t.round = s.round ∧ t.highQC = s.highQC ∧ t.author = s.name ∧
      Out.timeout t ∈ (s.localTimeout c).hist ∧ s.round ≤ (s.localTimeout c).lastVoted := by
  refine ⟨{ highQC := s.highQC, round := s.round, author := s.name,
            sig := ⟨s.name, .timeout s.round s.highQC.round⟩ }, rfl, rfl, rfl, ?_, ?_⟩
  · unfold localTimeout
    apply ext_hist_mem (ext_handleTimeout c _ _)
    simp
  · unfold localTimeout
    have := (ext_handleTimeout c (({ s with lastVoted := max s.lastVoted s.round }).emit
      (.timeout { highQC := s.highQC, round := s.round, author := s.name,
                  sig := ⟨s.name, .timeout s.round s.highQC.round⟩ }))
      { highQC := s.highQC, round := s.round, author := s.name,
        sig := ⟨s.name, .timeout s.round s.highQC.round⟩ }).lv
    simp at this ⊢
    omega

/-- (L2) When a verified timeout completes a quorum (the aggregator returns a TC), the node
broadcasts the TC and is in a round above the timeout's round. -/
theorem quorum_of_timeouts_advances (c : Committee) (s : Node) (t : Timeout) (a : Aggregator) (tc : TC)
    (hr : ¬ t.round < s.round) (hv : t.verify c = .ok ())
    (hadd : (s.processQC t.highQC).agg.addTimeout c t = .ok (a, some tc)) :
    Out.tc tc ∈ (s.handleTimeout c t).hist ∧ t.round < (s.handleTimeout c t).round := by
  have htc := addTimeout_tc _ _ _ _ _ hadd
  unfold handleTimeout
  simp only [hr, if_false, hv, hadd]
  have hadv := advanceRound_round_gt ({ (s.processQC t.highQC) with agg := a }) tc.round (.tc tc)
  split
  · refine ⟨?_, ?_⟩
    · apply ext_hist_mem (ext_generateProposal _ _); simp
    · have := (ext_generateProposal (((({ (s.processQC t.highQC) with agg := a }).advanceRound tc.round (.tc tc))).emit (.tc tc)) (some tc)).round
      simp at this hadv ⊢
      omega
  · refine ⟨by simp, ?_⟩
    simp at hadv ⊢
    omega

/-- (L3) A node that learns a valid TC for a round `≥` its own and leads the next round asks its
proposer for exactly one block of that round, carrying its high QC and the TC. -/
theorem leader_proposes_after_tc (c : Committee) (s : Node) (tc : TC)
    (hv : tc.verify c = .ok ()) (hr : ¬ tc.round < s.round) (hl : s.name = c.leader (tc.round + 1)) :
    (s.handleTC c tc).round = tc.round + 1 ∧
    (s.handleTC c tc).propQ = s.propQ ++ [.make (tc.round + 1) s.highQC (some tc)] := by
  unfold handleTC
  simp only [hv, hr, if_false]
  have hround : (s.advanceRound tc.round (.tc tc)).round = tc.round + 1 := by
    unfold advanceRound; simp [hr]
  have hname : (s.advanceRound tc.round (.tc tc)).name = s.name := advanceRound_name _ _ _
  have hhq : (s.advanceRound tc.round (.tc tc)).highQC = s.highQC := (advanceRound_facts s _ _).2
  have hq : (s.advanceRound tc.round (.tc tc)).propQ = s.propQ := by
    unfold advanceRound; split <;> simp
  simp only [hname, hround, hl, beq_self_eq_true, if_true]
  unfold generateProposal
  simp [hround, hhq, hq]

/-- (L4) Voting is enabled: a node in round `r` that has not voted or timed out in `r` votes for a
round-`r` block that satisfies safety rule 2 (extends the previous round's QC, or carries a TC of the
previous round whose reported QCs are not higher than the block's) once the block reaches the
voting stage. -/
theorem vote_enabled (c : Committee) (s : Node) (b : Block)
    (hp : s.panic = none) (hr : b.round = s.round) (hlv : s.lastVoted < b.round)
    (h2 : safetyRule2 b = some true) :
    Out.voted b ∈ (voteStage c s true b).hist :=
  voteStage_votes c s b hp hr hlv h2

/-- (L6) View synchronisation: whoever receives a valid TC of round `r`, or a proposal whose QC is
of round `r`, is in a round above `r` afterwards. -/
theorem tc_synchronises_view (c : Committee) (s : Node) (tc : TC) (hv : tc.verify c = .ok ()) :
    tc.round < (s.handleTC c tc).round := by
  unfold handleTC
  simp only [hv]
  split
  · omega
  · have := advanceRound_round_gt s tc.round (.tc tc)
    split
    · have h := (ext_generateProposal (s.advanceRound tc.round (.tc tc)) (some tc)).round; omega
    · omega

theorem qc_synchronises_view (s : Node) (qc : QC) : qc.round < (s.processQC qc).round :=
  (processQC_facts s qc).1

/-- (L7) The commit rule fires.  In every reachable state of a node, a proposal `b` from its round's
leader that passes `verify`, whose batches the node holds, and whose parent `b1` and grandparent
`b0` the node has stored with `b0.round + 1 = b1.round`, leaves `last_committed_round ≥ b0.round`:
three consecutive certified proposals commit the first (the "if" direction of C05's rule). -/
theorem consecutive_chain_commits (c : Committee) (name : Nat) (hd : Deploy c name) (es : List Event)
    (b b1 b0 : Block)
    (hl : b.author = c.leader b.round) (hv : b.verify c = .ok ())
    (hpay : ∀ d ∈ b.payload, d ∈ (run c (init c name) es).avail)
    (hp1 : (getParent c (run c (init c name) es) b).2 = .found b1)
    (hp0 : (getParent c (run c (init c name) es) b1).2 = .found b0)
    (h2 : b0.round + 1 = b1.round) :
    b0.round ≤ ((run c (init c name) es).handleProposal c b).lastCommitted :=
  handleProposal_commits c _ b b1 b0 (reachable_inv4 c name hd rfl es) hl hv hpay hp1 hp0 h2

/-- (L9) The good case of voting, end to end through `handle_proposal`: in every reachable state, a
node that has not moved past round `b.round` and has neither voted nor timed out in it, on receiving
from that round's leader a verified block `b` that directly extends its QC, whose batches it holds
and whose parent and grandparent it has stored, signs a vote for `b` (which, by
`C03.wire_vote_is_for_voted_block`, goes to the leader of the next round). -/
theorem honest_proposal_is_voted (c : Committee) (name : Nat) (hd : Deploy c name) (es : List Event)
    (b b1 b0 : Block)
    (hl : b.author = c.leader b.round) (hv : b.verify c = .ok ())
    (hpay : ∀ d ∈ b.payload, d ∈ (run c (init c name) es).avail)
    (hp1 : (getParent c (run c (init c name) es) b).2 = .found b1)
    (hp0 : (getParent c (run c (init c name) es) b1).2 = .found b0)
    (htc : b.tc = none) (hdir : b.qc.round + 1 = b.round)
    (hround : (run c (init c name) es).round ≤ b.round)
    (hlv : (run c (init c name) es).lastVoted < b.round) :
    Out.voted b ∈ ((run c (init c name) es).handleProposal c b).hist :=
  handleProposal_votes c _ b b1 b0 (reachable_inv4 c name hd rfl es) hl hv hpay hp1 hp0 htc hdir hround hlv

/-- (L8) Faulty leaders delay progress only boundedly: whatever set of `m < n` authorities is
crashed or Byzantine, it leads at most `m` rounds in a row — among any `m + 1` consecutive rounds at
least one is led by an authority outside the set (rotation over the sorted keys is a bijection on
every window of `n` rounds). -/
theorem faulty_leaders_lead_at_most_m_rounds_in_a_row (c : Committee) (hw : c.WF) (h : c.keys ≠ [])
    (faulty : List Nat) (hm : faulty.length < c.keys.length) (r0 : Nat) :
    ∃ i, i ≤ faulty.length ∧ c.leader (r0 + i) ∉ faulty :=
  leader_outside_within c hw h faulty hm r0

/-- (L10) With `n ≥ 3m + 1` authorities of which any `m` are crashed or Byzantine, every window of
`n` consecutive rounds contains THREE consecutive rounds led by authorities outside the faulty set —
exactly what a 2-chain commit needs (L9: the first two blocks get voted, L7: the third one commits
the first).  So after the network has stabilised a commit is at most one leader rotation away. -/
theorem three_consecutive_nonfaulty_leaders (c : Committee) (hw : c.WF) (h : c.keys ≠ [])
    (faulty : List Nat) (hm : 3 * faulty.length < c.keys.length) (r0 : Nat) :
    ∃ i, i < c.keys.length ∧ c.leader (r0 + i) ∉ faulty ∧ c.leader (r0 + i + 1) ∉ faulty ∧
      c.leader (r0 + i + 2) ∉ faulty :=
  three_consecutive_outside c hw h faulty hm r0

/-- Non-vacuity of L8/L10: seven authorities, 2 and 5 faulty: rounds led by 6, 7, 1 are a clean triple. -/
example :
    let c : Committee := ⟨[(1, 1), (2, 1), (3, 1), (4, 1), (5, 1), (6, 1), (7, 1)]⟩
    c.leader 5 = 6 ∧ c.leader 6 = 7 ∧ c.leader 7 = 1 ∧ 3 * [2, 5].length < c.keys.length := by
  decide

/-- Non-vacuity / good case on one node: blocks of three consecutive rounds commit the first. -/
example :
    let c : Committee := ⟨[(1, 1), (2, 1), (3, 1), (4, 1)]⟩
    let mk (a r : Nat) (q : QC) : Block :=
      { qc := q, tc := none, author := a, round := r, payload := [], sig := ⟨a, .block (.block a r [] q.hash)⟩ }
    let cert (b : Block) : QC :=
      { hash := b.digest, round := b.round, votes := [(1, ⟨1, .vote b.digest b.round⟩), (2, ⟨2, .vote b.digest b.round⟩), (3, ⟨3, .vote b.digest b.round⟩)] }
    let b1 := mk 2 1 QC.genesis
    let b2 := mk 3 2 (cert b1)
    let b3 := mk 4 3 (cert b2)
    (run c (init c 1) [.msg (.propose b1), .msg (.propose b2), .msg (.propose b3)]).lastCommitted = 1 := by
  decide

/-! ### The round timer (`consensus/src/timer.rs`, `HS.Timer`)

"Each faulty leader delays progress only by a bounded number of round timeouts": the length of one
round timeout is fixed by the timer — `Core` resets it when it enters a round and after every local
timeout, and a reset puts the deadline at `now + timeout_delay` (`Gen.timerDeadline`, regenerated from
the source; the engine `timer` runs the real `Timer` under the virtual clock against this model). -/

theorem timer_resets_duration (t : Timer.T) (rs : List Nat) : (Timer.resets t rs).duration = t.duration := by
  induction rs generalizing t with
  | nil => rfl
  | cons r rs ih => simpa [Timer.resets, Timer.reset] using ih (Timer.reset t r)

theorem timer_resets_last (t : Timer.T) (rs : List Nat) (last : Nat) :
    (Timer.resets t (rs ++ [last])).deadline = last + t.duration := by
  induction rs generalizing t with
  | nil => simp [Timer.resets, Timer.reset]
  | cons r rs ih =>
    simp only [List.cons_append, Timer.resets]
    rw [ih (Timer.reset t r)]
    simp [Timer.reset]

/-- (L11) After any history of resets the timer is ready exactly from `timeout_delay` after the LAST
reset on: never earlier (a round is not cut short), and from then on (a silent leader costs one
`timeout_delay`, not more) — earlier deadlines do not matter. -/
theorem timer_fires_exactly_duration_after_last_reset (t : Timer.T) (rs : List Nat) (last now : Nat) :
    Timer.fired (Timer.resets t (rs ++ [last])) now = true ↔ last + t.duration ≤ now := by
  simp [Timer.fired, timer_resets_last]

/-- A fresh timer is ready exactly from `timeout_delay` after its creation on. -/
theorem timer_new_fires_after_duration (d t0 now : Nat) :
    Timer.fired (Timer.new d t0) now = true ↔ t0 + d ≤ now := by
  unfold Timer.fired Timer.new
  exact decide_eq_true_iff

/-- Non-vacuity of L11: 1000 ms, created at 0, reset at 400 and at 900: silent at 1899, ready at 1900. -/
example :
    Timer.fired (Timer.resets (Timer.new 1000 0) [400, 900]) 1899 = false ∧
    Timer.fired (Timer.resets (Timer.new 1000 0) [400, 900]) 1900 = true := by
  decide

/-! ### The proposer's wait for acknowledgements (`Proposer::make_block`, `HS.PW`)

After broadcasting a block the proposer takes no further message until the peers that acknowledged it
hold, with the node itself, a quorum of the stake (`Gen.proposerQuorum`, regenerated from the source).
A crashed peer never acknowledges, so progress needs this wait to end on the honest peers alone. -/

/-- (L12) The wait never depends on a faulty peer: with Byzantine/crashed stake at most `f`, once the
waiters of all non-faulty peers have completed — in whatever order, interleaved with whatever else —
the loop has left through its `break`; and it leaves at the FIRST completion at which the stake
gathered reaches the quorum, not later. -/
theorem proposer_wait_ends_with_honest_acks (c : Committee) (hc : c.WF) (bad : Nat → Bool)
    (hn1 : 1 ≤ c.total) (hn2 : c.total < 2 ^ 31) (hbad : c.weight (c.keys.filter bad) ≤ C17.f c.total)
    (own : Nat) (names : List Nat) (hne : names ≠ [])
    (hall : ∀ k ∈ c.keys, bad k = false → k = own ∨ k ∈ names) :
    (PW.wait c.quorum (c.stake own) (names.map c.stake)).2 = true ∧
    (∀ j, 0 < j → j < (PW.wait c.quorum (c.stake own) (names.map c.stake)).1 →
      ¬ c.quorum ≤ c.stake own + ((names.map c.stake).take j).sum) := by
  have hq := C17.honest_form_quorum c hc bad hn1 hn2 hbad
  have hnd : (c.keys.filter (fun x => !bad x)).Nodup := List.Nodup.sublist List.filter_sublist hc
  have hsub : ∀ x ∈ c.keys.filter (fun x => !bad x), x ∈ own :: names := by
    intro x hx
    simp only [List.mem_filter, Bool.not_eq_eq_eq_not, Bool.not_true] at hx
    rcases hall x hx.1 hx.2 with h | h
    · simp [h]
    · simp [h]
  have hle := Q.weight_le_of_subset c.stake _ _ hnd hsub
  have hbreak : (PW.wait c.quorum (c.stake own) (names.map c.stake)).2 = true := by
    rw [PW.wait_breaks_iff]
    refine ⟨by simpa using hne, ?_⟩
    simp only [Committee.weight_eq, Q.weight_cons] at hq hle
    unfold Q.weight at hle hq
    omega
  exact ⟨hbreak, (PW.wait_stops_at_first_crossing _ _ _ hbreak).2⟩

/-- Non-vacuity of L12: four equal stakes, peer 4 crashed; the ACKs of 2 and 3 end node 1's wait, at the
second completion. -/
example :
    let c : Committee := ⟨[(1, 1), (2, 1), (3, 1), (4, 1)]⟩
    c.WF ∧ c.weight (c.keys.filter (fun k => k == 4)) ≤ C17.f c.total ∧
    PW.wait c.quorum (c.stake 1) ([2, 3].map c.stake) = (2, true) := by
  decide

/-! ### Why the premise "messages are not lost" is needed

A TC is broadcast once (best effort) and timeouts carry only the sender's high QC, not the TC that let
it enter its round.  The theorem below shows for the node model what the network simulation met on the
real code with lossy cuts (DESIGN 0.7): if the copies of TC(r) are lost after some nodes (`Hi`) used it,
and neither `Hi` nor the nodes left in round `r` (`Lo`) hold a quorum, then timers and timeouts alone
never move anybody — the nodes of `Hi` drop the timeouts of round `r` unread, the nodes of `Lo` never
gather a quorum for `r` or `r + 1`.  So C06 cannot be strengthened to lossy networks for this code. -/

/-- (N1) However many of its own timer expiries and of the other nodes' timeouts follow (round `r`
from `Lo`, round `r + 1` from `Hi`, all with high QCs older than `r`), a node of `Lo` stays in round
`r`; and a node that is ahead drops every timeout of an earlier round without reading it. -/
theorem lost_tc_leaves_nodes_stuck (c : Committee) (r : Nat) (Lo Hi : List Nat)
    (hLo : NoQuorum c Lo) (hHi : NoQuorum c Hi) :
    (∀ (s : Node) (es : List Event), Behind c r Lo Hi s → (∀ e ∈ es, StuckInput r Lo Hi e) →
      (run c s es).round = r ∧ Behind c r Lo Hi (run c s es)) ∧
    (∀ (s : Node) (t : Timeout), t.round < s.round → step c s (.msg (.timeout t)) = s) :=
  ⟨fun s es hb he => ⟨(run_behind c r Lo Hi s es hLo hHi hb he).round, run_behind c r Lo Hi s es hLo hHi hb he⟩,
   fun s t h => ahead_ignores_earlier_timeouts c s t h⟩

/-- Non-vacuity of N1: four equal stakes (quorum 3), node 4 crashed, node 1 went on to round 8 with the
lost TC(7), nodes 2 and 3 are left in round 7 with a high QC of round 5: the hypotheses hold, and a
concrete exchange (own timers, timeouts of 3 for round 7 and of 1 for round 8) leaves node 2 in 7. -/
example :
    let c : Committee := ⟨[(1, 1), (2, 1), (3, 1), (4, 1)]⟩
    let q5 : QC := { hash := .raw 0, round := 5, votes := [] }
    let s : Node := { name := 2, round := 7, highQC := q5 }
    let t7 : Timeout := { highQC := q5, round := 7, author := 3, sig := ⟨3, .timeout 7 5⟩ }
    let t8 : Timeout := { highQC := q5, round := 8, author := 1, sig := ⟨1, .timeout 8 5⟩ }
    NoQuorum c [2, 3] ∧ NoQuorum c [1] ∧ Behind c 7 [2, 3] [1] s ∧
    (∀ e ∈ [Event.timer, .msg (.timeout t7), .msg (.timeout t8), .timer, .msg (.timeout t8)], StuckInput 7 [2, 3] [1] e) ∧
    (run c s [.timer, .msg (.timeout t7), .msg (.timeout t8), .timer, .msg (.timeout t8)]).round = 7 := by
  intro c q5 s t7 t8
  have nq : ∀ S : List Nat, c.weight S < c.quorum → NoQuorum c S := by
    intro S hS l hnd hsub
    have := Q.weight_le_of_subset c.stake l S hnd hsub
    rw [Committee.weight_eq] at hS ⊢
    omega
  refine ⟨nq _ (by decide), nq _ (by decide), ⟨rfl, by decide, by decide, aggOK_empty c, ?_, ?_⟩, ?_, by decide⟩
  · intro m hm; simp [s] at hm
  · intro m hm; simp [s] at hm
  · intro e he
    simp only [List.mem_cons, List.mem_nil_iff, or_false] at he
    rcases he with rfl | rfl | rfl | rfl | rfl <;> simp [StuckInput, t7, t8, q5]

end HS.C06
