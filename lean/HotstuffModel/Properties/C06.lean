import HotstuffModel.Proofs.Reachable
import HotstuffModel.Proofs.NodeInv6
import HotstuffModel.Proofs.CommitLive
import HotstuffModel.Proofs.LeaderWindow
/-!
# C06 — Liveness with up to f crashed nodes (PARTIAL: enabling lemmas)

The temporal claim ("from some point on … every live node's committed round keeps growing") needs
a fairness/real-time model of timers and TCP back-off that this development does not have.  What is
proved here, for every state / every input, are the progress steps the liveness argument is made of;
the claim itself is explored on the real code by the `netsim` engine (4–7 real nodes, every choice
of ≤ f crashed nodes and crash instants, random pre-stabilisation delays and cuts, then a stable
network: each live node must commit within every window of (4(f+1)+6) timeouts).
-/
namespace HS.C06
open HS Node

/-- (L1) The local timer always produces a signed timeout for the current round carrying the
current high QC — whatever the state — and bumps `last_voted_round` to the round. -/
theorem timer_always_yields_timeout (c : Committee) (s : Node) :
    ∃ t : Timeout, t.round = s.round ∧ t.highQC = s.highQC ∧ t.author = s.name ∧
      Out.timeout t ∈ (s.localTimeout c).hist ∧ s.round ≤ (s.localTimeout c).lastVoted := by
  refine ⟨{ highQC := s.highQC, round := s.round, author := s.name,
            sig := ⟨s.name, .timeout s.round s.highQC.round⟩ }, rfl, rfl, rfl, ?_, ?_⟩
  · unfold localTimeout
    apply ext_hist_mem (ext_handleTimeout c _ _)
    simp
  · unfold localTimeout
    have := (ext_handleTimeout c (({ s with lastVoted := max s.lastVoted s.round }).emit
      (.timeout { highQC := s.highQC, round := s.round, author := s.name,
                  sig := ⟨s.name, .timeout s.round s.highQC.round⟩ }))
      { highQC := s.highQC, round := s.round, author := s.name,
        sig := ⟨s.name, .timeout s.round s.highQC.round⟩ }).lv
    simp at this ⊢
    omega

/-- (L2) When a verified timeout completes a quorum (the aggregator returns a TC), the node
broadcasts the TC and is in a round above the timeout's round. -/
theorem quorum_of_timeouts_advances (c : Committee) (s : Node) (t : Timeout) (a : Aggregator) (tc : TC)
    (hr : ¬ t.round < s.round) (hv : t.verify c = .ok ())
    (hadd : (s.processQC t.highQC).agg.addTimeout c t = .ok (a, some tc)) :
    Out.tc tc ∈ (s.handleTimeout c t).hist ∧ t.round < (s.handleTimeout c t).round := by
  have htc := addTimeout_tc _ _ _ _ _ hadd
  unfold handleTimeout
  simp only [hr, if_false, hv, hadd]
  have hadv := advanceRound_round_gt ({ (s.processQC t.highQC) with agg := a }) tc.round (.tc tc)
  split
  · refine ⟨?_, ?_⟩
    · apply ext_hist_mem (ext_generateProposal _ _); simp
    · have := (ext_generateProposal (((({ (s.processQC t.highQC) with agg := a }).advanceRound tc.round (.tc tc))).emit (.tc tc)) (some tc)).round
      simp at this hadv ⊢
      omega
  · refine ⟨by simp, ?_⟩
    simp at hadv ⊢
    omega

/-- (L3) A node that learns a valid TC for a round `≥` its own and leads the next round asks its
proposer for exactly one block of that round, carrying its high QC and the TC. -/
theorem leader_proposes_after_tc (c : Committee) (s : Node) (tc : TC)
    (hv : tc.verify c = .ok ()) (hr : ¬ tc.round < s.round) (hl : s.name = c.leader (tc.round + 1)) :
    (s.handleTC c tc).round = tc.round + 1 ∧
    (s.handleTC c tc).propQ = s.propQ ++ [.make (tc.round + 1) s.highQC (some tc)] := by
  unfold handleTC
  simp only [hv, hr, if_false]
  have hround : (s.advanceRound tc.round (.tc tc)).round = tc.round + 1 := by
    unfold advanceRound; simp [hr]
  have hname : (s.advanceRound tc.round (.tc tc)).name = s.name := advanceRound_name _ _ _
  have hhq : (s.advanceRound tc.round (.tc tc)).highQC = s.highQC := (advanceRound_facts s _ _).2
  have hq : (s.advanceRound tc.round (.tc tc)).propQ = s.propQ := by
    unfold advanceRound; split <;> simp
  simp only [hname, hround, hl, beq_self_eq_true, if_true]
  unfold generateProposal
  simp [hround, hhq, hq]

/-- (L4) Voting is enabled: a node in round `r` that has not voted or timed out in `r` votes for a
round-`r` block that satisfies safety rule 2 (extends the previous round's QC, or carries a TC of the
previous round whose reported QCs are not higher than the block's) once the block reaches the
voting stage. -/
theorem vote_enabled (c : Committee) (s : Node) (b : Block)
    (hp : s.panic = none) (hr : b.round = s.round) (hlv : s.lastVoted < b.round)
    (h2 : safetyRule2 b = some true) :
    Out.voted b ∈ (voteStage c s true b).hist :=
  voteStage_votes c s b hp hr hlv h2

/-- (L6) View synchronisation: whoever receives a valid TC of round `r`, or a proposal whose QC is
of round `r`, is in a round above `r` afterwards. -/
theorem tc_synchronises_view (c : Committee) (s : Node) (tc : TC) (hv : tc.verify c = .ok ()) :
    tc.round < (s.handleTC c tc).round := by
  unfold handleTC
  simp only [hv]
  split
  · omega
  · have := advanceRound_round_gt s tc.round (.tc tc)
    split
    · have h := (ext_generateProposal (s.advanceRound tc.round (.tc tc)) (some tc)).round; omega
    · omega

theorem qc_synchronises_view (s : Node) (qc : QC) : qc.round < (s.processQC qc).round :=
  (processQC_facts s qc).1

/-- (L7) The commit rule fires.  In every reachable state of a node, a proposal `b` from its round's
leader that passes `verify`, whose batches the node holds, and whose parent `b1` and grandparent
`b0` the node has stored with `b0.round + 1 = b1.round`, leaves `last_committed_round ≥ b0.round`:
three consecutive certified proposals commit the first (the "if" direction of C05's rule). -/
theorem consecutive_chain_commits (c : Committee) (name : Nat) (hd : Deploy c name) (es : List Event)
    (b b1 b0 : Block)
    (hl : b.author = c.leader b.round) (hv : b.verify c = .ok ())
    (hpay : ∀ d ∈ b.payload, d ∈ (run c (init c name) es).avail)
    (hp1 : (getParent c (run c (init c name) es) b).2 = .found b1)
    (hp0 : (getParent c (run c (init c name) es) b1).2 = .found b0)
    (h2 : b0.round + 1 = b1.round) :
    b0.round ≤ ((run c (init c name) es).handleProposal c b).lastCommitted :=
  handleProposal_commits c _ b b1 b0 (reachable_inv4 c name hd rfl es) hl hv hpay hp1 hp0 h2

/-- (L9) The good case of voting, end to end through `handle_proposal`: in every reachable state, a
node that has not moved past round `b.round` and has neither voted nor timed out in it, on receiving
from that round's leader a verified block `b` that directly extends its QC, whose batches it holds
and whose parent and grandparent it has stored, signs a vote for `b` (which, by
`C03.wire_vote_is_for_voted_block`, goes to the leader of the next round). -/
theorem honest_proposal_is_voted (c : Committee) (name : Nat) (hd : Deploy c name) (es : List Event)
    (b b1 b0 : Block)
    (hl : b.author = c.leader b.round) (hv : b.verify c = .ok ())
    (hpay : ∀ d ∈ b.payload, d ∈ (run c (init c name) es).avail)
    (hp1 : (getParent c (run c (init c name) es) b).2 = .found b1)
    (hp0 : (getParent c (run c (init c name) es) b1).2 = .found b0)
    (htc : b.tc = none) (hdir : b.qc.round + 1 = b.round)
    (hround : (run c (init c name) es).round ≤ b.round)
    (hlv : (run c (init c name) es).lastVoted < b.round) :
    Out.voted b ∈ ((run c (init c name) es).handleProposal c b).hist :=
  handleProposal_votes c _ b b1 b0 (reachable_inv4 c name hd rfl es) hl hv hpay hp1 hp0 htc hdir hround hlv

/-- (L8) Faulty leaders delay progress only boundedly: whatever set of `m < n` authorities is
crashed or Byzantine, it leads at most `m` rounds in a row — among any `m + 1` consecutive rounds at
least one is led by an authority outside the set (rotation over the sorted keys is a bijection on
every window of `n` rounds). -/
theorem faulty_leaders_lead_at_most_m_rounds_in_a_row (c : Committee) (hw : c.WF) (h : c.keys ≠ [])
    (faulty : List Nat) (hm : faulty.length < c.keys.length) (r0 : Nat) :
    ∃ i, i ≤ faulty.length ∧ c.leader (r0 + i) ∉ faulty :=
  leader_outside_within c hw h faulty hm r0

/-- (L10) With `n ≥ 3m + 1` authorities of which any `m` are crashed or Byzantine, every window of
`n` consecutive rounds contains THREE consecutive rounds led by authorities outside the faulty set —
exactly what a 2-chain commit needs (L9: the first two blocks get voted, L7: the third one commits
the first).  So after the network has stabilised a commit is at most one leader rotation away. -/
theorem three_consecutive_nonfaulty_leaders (c : Committee) (hw : c.WF) (h : c.keys ≠ [])
    (faulty : List Nat) (hm : 3 * faulty.length < c.keys.length) (r0 : Nat) :
    ∃ i, i < c.keys.length ∧ c.leader (r0 + i) ∉ faulty ∧ c.leader (r0 + i + 1) ∉ faulty ∧
      c.leader (r0 + i + 2) ∉ faulty :=
  three_consecutive_outside c hw h faulty hm r0

/-- Non-vacuity of L8/L10: seven authorities, 2 and 5 faulty: rounds led by 6, 7, 1 are a clean triple. -/
example :
    let c : Committee := ⟨[(1, 1), (2, 1), (3, 1), (4, 1), (5, 1), (6, 1), (7, 1)]⟩
    c.leader 5 = 6 ∧ c.leader 6 = 7 ∧ c.leader 7 = 1 ∧ 3 * [2, 5].length < c.keys.length := by
  decide

/-- Non-vacuity / good case on one node: blocks of three consecutive rounds commit the first. -/
example :
    let c : Committee := ⟨[(1, 1), (2, 1), (3, 1), (4, 1)]⟩
    let mk (a r : Nat) (q : QC) : Block :=
      { qc := q, tc := none, author := a, round := r, payload := [], sig := ⟨a, .block (.block a r [] q.hash)⟩ }
    let cert (b : Block) : QC :=
      { hash := b.digest, round := b.round, votes := [(1, ⟨1, .vote b.digest b.round⟩), (2, ⟨2, .vote b.digest b.round⟩), (3, ⟨3, .vote b.digest b.round⟩)] }
    let b1 := mk 2 1 QC.genesis
    let b2 := mk 3 2 (cert b1)
    let b3 := mk 4 3 (cert b2)
    (run c (init c 1) [.msg (.propose b1), .msg (.propose b2), .msg (.propose b3)]).lastCommitted = 1 := by
  decide

end HS.C06
