import HotstuffModel.Proofs.Base64
/-!
# C18 — Signatures and key encodings: the *encoder* part

Proved here, about the byte-level model of `base64::{encode,decode}` (crate base64 0.13, STANDARD),
`PublicKey/SecretKey::{encode_base64,decode_base64}` (`crypto/src/lib.rs`) and the JSON string layer:
keys survive encoding to text and back unchanged, also through a JSON string.

**Not proved (and not provable in this framework):** anything about ed25519 — `sign`,
`verify_strict`, `verify_batch` are exercised only differentially by the harness engine `codec`
(sign→verify, every single-bit flip of digest/key/signature rejected, batches with one corrupted member
at every position).  The model is tied to the real crates by the same engine (encode/decode on random,
exhaustive-small and mutated text), not by proof.
-/
namespace HS.C18
open HS.Wire

/-- base64: decoding the encoding of *any* byte string returns that byte string. -/
theorem base64_roundtrip (bs : List UInt8) : Base64.decode (Base64.encode bs) = some bs :=
  Base64.decode_encode bs

/-- The encoder is injective: different byte strings have different text. -/
theorem base64_encode_injective (a b : List UInt8) (h : Base64.encode a = Base64.encode b) : a = b := by
  have ha := Base64.decode_encode a
  rw [h, Base64.decode_encode b] at ha
  exact (Option.some.inj ha).symm

/-- Every 32-byte public key survives `encode_base64` → `decode_base64` unchanged (with the code as it
is, `c = false`, and with the repaired slice, `c = true`). -/
theorem public_key_roundtrip (c : Bool) (k : List UInt8) (h : k.length = 32) :
    decodePublicKey c (encodeKey k) = .ok k := decodeKey_encodeKey c 32 k h

/-- Every 64-byte secret key survives `encode_base64` → `decode_base64` unchanged. -/
theorem secret_key_roundtrip (c : Bool) (k : List UInt8) (h : k.length = 64) :
    decodeSecretKey c (encodeKey k) = .ok k := decodeKey_encodeKey c 64 k h

/-- Text length: 44 characters for a public key, 88 for a secret key. -/
theorem key_text_length (k : List UInt8) :
    (k.length = 32 → (encodeKey k).length = 44) ∧ (k.length = 64 → (encodeKey k).length = 88) := by
  unfold encodeKey
  constructor <;> (intro h; rw [Base64.encode_length, h])

/-- The text of any key (of any byte string) contains no character that JSON escapes (`"`, `\`,
control characters) and only 7-bit ASCII. -/
theorem key_text_needs_no_json_escape (k : List UInt8) :
    ∀ ch ∈ encodeKey k, Json.needsEscape ch = false ∧ ch.toNat < 128 :=
  fun ch h => Base64.alphabet_json_safe ch (Base64.encode_alphabet k ch h)

/-- So the JSON string layer is the identity on key text: what `serde_json` writes for the string is
`"` + the text + `"`, and reading it back returns the text. -/
theorem json_string_layer_identity (k rest : List UInt8) :
    Json.writeStr (encodeKey k) = Json.quote :: (encodeKey k ++ [Json.quote]) ∧
    Json.readStr (Json.writeStr (encodeKey k) ++ rest) = some (encodeKey k, rest) := by
  have hs : ∀ ch ∈ encodeKey k, Json.needsEscape ch = false :=
    fun ch h => (key_text_needs_no_json_escape k ch h).1
  constructor
  · unfold Json.writeStr; rw [Json.escape_id _ hs]
  · exact Json.readStr_writeStr _ rest hs

/-- Public key → base64 → JSON string → read back → `decode_base64` is the identity (key files,
committee files). -/
theorem public_key_json_roundtrip (c : Bool) (k rest : List UInt8) (h : k.length = 32) :
    ∃ s, Json.readStr (Json.writeStr (encodeKey k) ++ rest) = some (s, rest) ∧
      decodePublicKey c s = .ok k :=
  ⟨encodeKey k, (json_string_layer_identity k rest).2, public_key_roundtrip c k h⟩

/-- Secret key likewise. -/
theorem secret_key_json_roundtrip (c : Bool) (k rest : List UInt8) (h : k.length = 64) :
    ∃ s, Json.readStr (Json.writeStr (encodeKey k) ++ rest) = some (s, rest) ∧
      decodeSecretKey c s = .ok k :=
  ⟨encodeKey k, (json_string_layer_identity k rest).2, secret_key_roundtrip c k h⟩

/-- Non-vacuity, evaluated through the model: a concrete 32-byte key, its 44-character text, the JSON
literal and the way back. -/
example :
    let k : List UInt8 := (List.range 32).map (fun i => UInt8.ofNat (8 * i + 3))
    k.length = 32 ∧ (encodeKey k).length = 44 ∧ decodePublicKey false (encodeKey k) = .ok k ∧
      Json.readStr (Json.writeStr (encodeKey k) ++ [44]) = some (encodeKey k, [44]) := by
  decide

/-- "hello" ↦ "aGVsbG8=" and back; non-canonical text is rejected (non-zero trailing bits). -/
example : Base64.encode [104, 101, 108, 108, 111] = [97, 71, 86, 115, 98, 71, 56, 61] ∧
    Base64.decode [97, 71, 86, 115, 98, 71, 56, 61] = some [104, 101, 108, 108, 111] ∧
    Base64.decode [97, 71, 86, 115, 98, 71, 57, 61] = none := by
  decide

end HS.C18
