import HotstuffModel.Proofs.Bridge
/-!
# C01 — Agreement: honest nodes never commit conflicting blocks

Global model (Proofs/Global.lean): one node model per honest committee member.  `Reach X G`:
`G` is reachable by any finite sequence of global steps, each delivering ANY event to ANY honest
member — any message with any content, in any order, any number of times, to any subset of nodes;
timers firing at any time; internal queues served in any interleaving — subject to one condition
only: a signature token naming an HONEST signer inside a delivered message must have been produced
by that signer (its own history records signing that content).  Tokens of Byzantine members
(`X.bad`, stake at most f = ⌊(n−1)/3⌋) are unconstrained, so equivocation, double votes, withheld or
stale certificates, replays and arbitrary message schedules/partitions are all covered.
Committees: any distinct keys, any stakes with total 1 ≤ n < 2^31, any number of rounds.

Assumptions (DESIGN §6): ideal signatures (a token verifies only for its signer and content) and
collision-free digests (a digest is its pre-image term); the byte-level layouts are injective and
domain-separated (C20).
-/
namespace HS.C01
open HS Node

/-- A delivery at an honest node is a commit in the abstract sense: the block is the head of a
quorum-certified consecutive-round 2-chain, or an ancestor of one. -/
theorem delivered_is_committed (X : World) (G : GState) (hR : Reach X G) (i : Nat) (hi : X.honest i)
    (x : Block) (hx : Out.commit x ∈ (G i).hist) :
    Abs.Committed (absCtx X) (absHist X G) x.digest := by
  obtain ⟨_, _, i3, _, i5⟩ := reach_local X G hR i hi
  have i6 := reach_legit X G hR i hi
  obtain ⟨hxpos, b0, b1, blk, hrec, hanc⟩ := i5.commits x hx
  obtain ⟨hr, hp1, hp0⟩ := i5.chains b0 b1 blk hrec
  obtain ⟨hckb, hck1⟩ := i3.chains b0 b1 blk hrec
  obtain ⟨htkb, htk1⟩ := i6.chains b0 b1 blk hrec
  -- b1 is a real block (round ≥ 1), so it is checked and its tokens are legitimate
  have hb1ne : b1 ≠ Block.genesis := by
    intro e; rw [e] at hr; simp [Block.genesis] at hr
  have hck1' : Checked X.c b1 := by rcases hck1 with e | h; exact absurd e hb1ne; exact h
  have htk1' : BlockTok (Legit X.bad G) b1 := by rcases htk1 with e | h; exact absurd e hb1ne; exact h
  -- blk's QC is a verified QC for b1's digest
  have hpar1 : b1.digest = blk.qc.hash := by
    rcases hp1 with ⟨_, e⟩ | h
    · exact absurd e hb1ne
    · exact h
  have hqv : blk.qc.verify X.c = .ok () := by
    rcases hckb.qc with hg | hv
    · have : blk.qc.hash = .zero := by
        have : blk.qc.hash = .zero ∧ blk.qc.round = 0 := by
          simpa [QC.isGenesis, QC.same, QC.genesis] using hg
        exact this.1
      rw [this] at hpar1; simp [Block.digest] at hpar1
    · exact hv
  have hcert1 : Abs.Certified (absCtx X) (absHist X G) b1.digest := by
    rw [hpar1]; exact (qc_certifies X G hqv htkb.1).1
  -- b0: if b1 extends genesis directly then x (an ancestor of genesis with a positive round) cannot exist
  have hb0 : b0.digest = b1.qc.hash ∧ b1.qc.verify X.c = .ok () := by
    rcases hp0 with ⟨hg, e⟩ | h
    · exfalso
      rw [e] at hanc
      have : x.digest = Block.genesis.digest := by
        simpa [AncOrSelf, Block.genesis, Block.digest, Digest.chain, QC.genesis] using hanc
      have hx0 : x.round = 0 := by
        have := congrArg dRound this
        simpa [Block.genesis] using this
      omega
    · refine ⟨h, ?_⟩
      rcases hck1'.qc with hg | hv
      · have : b1.qc.hash = .zero := by
          have : b1.qc.hash = .zero ∧ b1.qc.round = 0 := by
            simpa [QC.isGenesis, QC.same, QC.genesis] using hg
          exact this.1
        rw [this] at h; simp [Block.digest] at h
      · exact hv
  have hcert0 : Abs.Certified (absCtx X) (absHist X G) b0.digest := by
    rw [hb0.1]; exact (qc_certifies X G hb0.2 htk1'.1).1
  refine ⟨b0.digest, hcert0, ⟨b1.digest, ?_, ?_, hcert1⟩, extends_of_mem_chain X G hanc⟩
  · simp [absHist, hb0.1]
  · simp [absHist]; omega

/-- AGREEMENT.  Across all honest nodes and all time, every two delivered blocks lie on a single
chain: one is the other or an ancestor of it. -/
theorem agreement (X : World) (G : GState) (hR : Reach X G) (i j : Nat)
    (hi : X.honest i) (hj : X.honest j) (x y : Block)
    (hx : Out.commit x ∈ (G i).hist) (hy : Out.commit y ∈ (G j).hist) :
    AncOrSelf y x ∨ AncOrSelf x y := by
  have L := reach_localInv X G hR
  have cx := delivered_is_committed X G hR i hi x hx
  have cy := delivered_is_committed X G hR j hj y hy
  rcases Abs.agreement (absCtx X) (absHist X G) Digest.zero L cx cy with h | h
  · left; exact mem_chain_of_extends X G h
  · right; exact mem_chain_of_extends X G h

theorem chain_depth_lt {d e : Digest} (h : d ∈ e.chain) (hne : d ≠ e) : digestDepth d < digestDepth e := by
  induction e with
  | zero => simp [Digest.chain] at h
  | raw n => simp [Digest.chain] at h
  | block a r p par ih =>
    simp only [Digest.chain, List.mem_cons] at h
    rcases h with rfl | h
    · exact absurd rfl hne
    · simp only [digestDepth]
      by_cases hp : d = par
      · subst hp; omega
      · have := ih h hp; omega

/-- No two honest nodes ever commit different blocks for the same chain position (height). -/
theorem no_two_blocks_at_one_position (X : World) (G : GState) (hR : Reach X G) (i j : Nat)
    (hi : X.honest i) (hj : X.honest j) (x y : Block)
    (hx : Out.commit x ∈ (G i).hist) (hy : Out.commit y ∈ (G j).hist)
    (hpos : digestDepth x.digest = digestDepth y.digest) : x.digest = y.digest := by
  rcases agreement X G hR i j hi hj x y hx hy with h | h
  · apply Classical.byContradiction; intro hne
    have := chain_depth_lt h (fun e => hne e.symm); omega
  · apply Classical.byContradiction; intro hne
    have := chain_depth_lt h hne; omega

/-- At most one block is ever certified per round (so at most one block per round can be committed). -/
theorem one_certified_block_per_round (X : World) (G : GState) (hR : Reach X G) (q q' : QC)
    (hv : q.verify X.c = .ok ()) (hv' : q'.verify X.c = .ok ())
    (ht : QCtok (Legit X.bad G) q) (ht' : QCtok (Legit X.bad G) q') (hr : q.round = q'.round) :
    q.hash = q'.hash := by
  have L := reach_localInv X G hR
  obtain ⟨c1, r1⟩ := qc_certifies X G hv ht
  obtain ⟨c2, r2⟩ := qc_certifies X G hv' ht'
  exact Abs.certified_unique (absCtx X) (absHist X G) Digest.zero L c1 c2
    (by simp only [absHist]; rw [r1, r2, hr])

/-- Non-vacuity of `Reach`: committee {1,2,3,4} with equal stakes, member 4 Byzantine; three honest
nodes receive the leader's round-1 block. -/
example : ∃ X : World, X.honest 1 ∧ X.honest 3 ∧ X.bad 4 = true ∧
    ∃ G, Reach X G ∧ (G 3).lastVoted = 1 := by
  let c : Committee := ⟨[(1, 1), (2, 1), (3, 1), (4, 1)]⟩
  let X : World := ⟨c, fun k => k == 4, by decide, by decide, by decide, by decide, by decide⟩
  have h1 : X.honest 1 := ⟨by decide, rfl⟩
  have h3 : X.honest 3 := ⟨by decide, rfl⟩
  refine ⟨X, h1, h3, rfl, ?_⟩
  let b : Block := { qc := QC.genesis, tc := none, author := 2, round := 1, payload := [],
                     sig := ⟨2, .block (.block 2 1 [] .zero)⟩ }
  refine ⟨_, Reach.step _ 3 (.msg (.propose b)) Reach.init h3 ?_, by decide⟩
  exact ⟨by intro v hv; simp [b, QC.genesis] at hv, by intro x hx; simp [b] at hx⟩

end HS.C01
