import HotstuffModel.Proofs.Reachable
/-!
# C08 — Data availability: no vote or commit without the block's batches locally stored

`avail` is the set of batch digests present in the node's store.  It grows by the environment
events `batch d` (a peer's batch stored by the mempool, or a missing batch fetched on request) and
`digest d` (the node's own mempool: `Processor` writes the batch, then hands the digest to consensus
— one event, because that is the order in processor.rs; the batchmaker engine checks the real
`Processor` does exactly that).  For EVERY event list: any payloads (empty, partly available,
entirely missing), batches arriving in any order or never, on the direct, sync-resumed and
payload-resumed paths.
-/
namespace HS.C08
open HS Node

/-- Whenever the node has signed a vote for `b` — at that very micro-step and ever after — every
batch in `b`'s payload is in its own store. -/
theorem vote_only_with_batches_stored (c : Committee) (name : Nat) (hd : Deploy c name)
    (es : List Event) (b : Block) (hb : Out.voted b ∈ (run c (init c name) es).hist) :
    ∀ d ∈ b.payload, d ∈ (run c (init c name) es).avail :=
  (reachable_inv5 c name hd rfl es).votedPay b hb

/-- Every delivered (committed) block has all its batches in the node's own store. -/
theorem commit_only_with_batches_stored (c : Committee) (name : Nat) (hd : Deploy c name)
    (es : List Event) (x : Block) (hx : Out.commit x ∈ (run c (init c name) es).hist) :
    ∀ d ∈ x.payload, d ∈ (run c (init c name) es).avail :=
  (reachable_inv5 c name hd rfl es).commitPay x hx

/-- A block one of whose batches is missing has not been voted for (it is parked, never voted blind). -/
theorem never_voted_blind (c : Committee) (name : Nat) (hd : Deploy c name) (es : List Event) (b : Block)
    (hmiss : ∃ d ∈ b.payload, d ∉ (run c (init c name) es).avail) :
    Out.voted b ∉ (run c (init c name) es).hist := by
  intro hb
  obtain ⟨d, hd1, hd2⟩ := hmiss
  exact hd2 (vote_only_with_batches_stored c name hd es b hb d hd1)

/-- Everything that can still reach `process_block` (the loop-back queue, blocks parked for a missing
parent, stored blocks) has its batches stored; a block parked for its payload has every batch either
stored or on its list of awaited batches, and is released only when that list is all there. -/
theorem queued_blocks_have_batches (c : Committee) (name : Nat) (hd : Deploy c name) (es : List Event) :
    let s := run c (init c name) es
    (∀ b, b ∈ s.loopQ ++ s.syncPending ++ s.store.map Prod.snd → ∀ d ∈ b.payload, d ∈ s.avail) ∧
    (∀ b m, (b, m) ∈ s.payPending → ∀ d, d ∈ b.payload → d ∈ s.avail ∨ d ∈ m) :=
  ⟨(reachable_inv5 c name hd rfl es).blocksPay, (reachable_inv5 c name hd rfl es).parkedPay⟩

/-- Stored batches are never lost. -/
theorem stored_batches_stay (c : Committee) (s : Node) (es : List Event) (d : Nat) (h : d ∈ s.avail) :
    d ∈ (run c s es).avail := (ext_run c s es).avail d h

/-- Non-vacuity: a proposal with a missing batch is parked (mempool asked to sync, no vote); when the
batch arrives the block is resumed and voted. -/
example :
    let c : Committee := ⟨[(1, 1), (2, 1), (3, 1), (4, 1)]⟩
    let b : Block := { qc := QC.genesis, tc := none, author := 2, round := 1, payload := [7],
                       sig := ⟨2, .block (.block 2 1 [7] .zero)⟩ }
    let s1 := run c (init c 3) [.msg (.propose b)]
    let s2 := run c s1 [.batch 7, .payloadResume 0, .loopback]
    s1.hist = [.mempoolSync [7] 2] ∧ s1.payPending.length = 1 ∧
    s2.hist.contains (.voted b) = true := by
  decide

end HS.C08
