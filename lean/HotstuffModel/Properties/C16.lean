import HotstuffModel.Proofs.Store
/-!
# C16 — Store: reads see the latest write; notify-reads never miss a write

Model: `HS.Store` (`Model/Store.lean`), one `step` per command dequeued by the store actor.
All theorems quantify over every command sequence (any key type with decidable equality, any
value type, any number of waiters), starting from the empty store.

`trace init cs` is the list of reply lists, one per step; `got w rs` extracts what waiter `w`
(= one `notify_read` call = one oneshot) receives in a step.  "`w` is fresh" = the waiter id is
used by one `notifyRead` only, which holds in the Rust because every call creates a new oneshot.
-/
namespace HS.C16
open HS.Store

variable {κ ν : Type} [DecidableEq κ]

/-- The specification scan `lastWrite` really is "the value of the last write to `k`":
if the sequence is `pre ++ write k v :: post` with no write to `k` in `post`, it is `some v`. -/
theorem lastWrite_spec_some (k : κ) (v : ν) (pre post : List (Cmd κ ν))
    (hpost : ∀ c ∈ post, Cmd.writes k c = false) :
    lastWrite k (pre ++ Cmd.write k v :: post) = some v := by
  unfold lastWrite
  rw [lastWriteFrom_append]
  simp only [lastWriteFrom, upd, if_true]
  exact lastWriteFrom_no_write _ k post hpost

/-- … and `none` if there is no write to `k` at all. -/
theorem lastWrite_spec_none (k : κ) (cs : List (Cmd κ ν))
    (h : ∀ c ∈ cs, Cmd.writes k c = false) : (lastWrite k cs : Option ν) = none :=
  lastWriteFrom_no_write none k cs h

/-- After every command sequence the stored value of every key is the value of the last write
to that key in the sequence (or nothing): writes take effect in sequence order, whichever handle
issued them, and `reopen` (which `lastWrite` ignores) loses nothing. -/
theorem kv_is_last_write (cs : List (Cmd κ ν)) (k : κ) :
    get (run (init : State κ ν) cs) k = lastWrite k cs := by
  rw [get_run]; rfl

/-- A `read k` issued after `cs` is answered in its own step with exactly one reply, the value
of the last earlier write to `k` (`none` if there was none), and changes nothing. -/
theorem read_returns_last_write (cs : List (Cmd κ ν)) (k : κ) :
    step (run (init : State κ ν) cs) (.read k)
      = (run init cs, [Reply.readReply (lastWrite k cs)]) := by
  simp only [step, kv_is_last_write]

/-- Spelled out: after `pre ++ write k v :: post` where `post` (any reads, notify-reads, writes
to other keys, reopens) does not write `k`, a read of `k` returns `v`. -/
theorem read_sees_last_write (k : κ) (v : ν) (pre post : List (Cmd κ ν))
    (hpost : ∀ c ∈ post, Cmd.writes k c = false) :
    (step (run (init : State κ ν) (pre ++ Cmd.write k v :: post)) (.read k)).2
      = [Reply.readReply (some v)] := by
  rw [read_returns_last_write, lastWrite_spec_some k v pre post hpost]

/-- A key that was never written reads as `none`. -/
theorem read_none_if_never_written (k : κ) (cs : List (Cmd κ ν))
    (h : ∀ c ∈ cs, Cmd.writes k c = false) :
    (step (run (init : State κ ν) cs) (.read k)).2 = [Reply.readReply none] := by
  rw [read_returns_last_write, lastWrite_spec_none k cs h]

/-- A write takes effect at its place in the sequence, from any state. -/
theorem write_takes_effect (s : State κ ν) (cs : List (Cmd κ ν)) (k : κ) (v : ν) :
    get (run s (cs ++ [Cmd.write k v])) k = some v := by
  rw [get_run, lastWriteFrom_append]
  simp [lastWriteFrom, upd]

/-- `reopen` keeps the data; the new actor has no obligations and nothing is answered. -/
theorem reopen_keeps_data (s : State κ ν) :
    (step s .reopen).1.kv = s.kv ∧ (∀ k, obligations (step s .reopen).1 k = []) ∧
    (step s .reopen).2 = [] := by
  simp [step, obligations]

/-- Invariant, for every command sequence: a key with pending waiters has no value. -/
theorem waiters_only_on_missing_keys (cs : List (Cmd κ ν)) (k : κ)
    (h : obligations (run (init : State κ ν) cs) k ≠ []) : get (run (init : State κ ν) cs) k = none :=
  inv_obligations _ (inv_run init cs inv_init) k h

/-- A write to `k` answers *all* waiters of `k` in that very step, in arrival order, each with
the value just written, and nothing else; afterwards `k` has no waiters and the waiters of every
other key are untouched. -/
theorem write_wakes_all_waiters_of_key (s : State κ ν) (k : κ) (v : ν) :
    (step s (.write k v)).2 = (obligations s k).map (fun w => Reply.notified w v) ∧
    obligations (step s (.write k v)).1 k = [] ∧
    ∀ k', k' ≠ k → obligations (step s (.write k v)).1 k' = obligations s k' := by
  refine ⟨rfl, ?_, ?_⟩
  · simp only [step, obligations, List.filter_filter]
    rw [List.filter_eq_nil_iff.mpr]; · rfl
    intro p _; simp
  · intro k' hk
    simp only [step, obligations, List.filter_filter]
    congr 1
    apply List.filter_congr
    intro p _
    by_cases hp : p.1 = k'
    · subst hp; simp [hk]
    · simp [hp]

/-- A `notifyRead k w` issued when `k` already has a value is answered in its own step, exactly
once over the whole run, with the current value (= the last earlier write). -/
theorem notify_answered_immediately (k : κ) (w : Nat) (v : ν) (pre post : List (Cmd κ ν))
    (hv : lastWrite k pre = some v)
    (hfresh : ∀ c ∈ pre ++ post, Cmd.usesWaiter w c = false) :
    (trace (init : State κ ν) (pre ++ Cmd.notifyRead k w :: post)).map (got w)
      = List.replicate pre.length [] ++ [v] :: List.replicate post.length [] := by
  have h1 := absent_trace (init : State κ ν) pre w (absent_init w)
    (fun c hc => hfresh c (by simp [hc]))
  have hg : get (run (init : State κ ν) pre) k = some v := by rw [kv_is_last_write, hv]
  have h2 := (absent_notify (run init pre) k w h1.2).1 v hg
  have h3 := absent_trace _ post w h2.2 (fun c hc => hfresh c (by simp [hc]))
  rw [trace_append, List.map_append, h1.1]
  simp only [trace, List.map_cons, h2.1, h3.1]

/-- A `notifyRead k w` issued while `k` has no value is answered exactly in the step of the first
later `write k v` — not before, not after, exactly once over the whole run — with that write's
value, whatever else (reads, other waiters on the same key, writes to other keys) happens in
between and afterwards (later writes of other values to `k`, reopens included). -/
theorem notify_answered_by_first_later_write (k : κ) (w : Nat) (v : ν)
    (pre mid post : List (Cmd κ ν))
    (hpre : ∀ c ∈ pre, Cmd.writes k c = false)
    (hmid : ∀ c ∈ mid, Cmd.writes k c = false ∧ Cmd.isReopen c = false)
    (hfresh : ∀ c ∈ pre ++ mid ++ post, Cmd.usesWaiter w c = false) :
    (trace (init : State κ ν) (pre ++ Cmd.notifyRead k w :: (mid ++ Cmd.write k v :: post))).map (got w)
      = List.replicate pre.length [] ++ [] :: (List.replicate mid.length [] ++
          [v] :: List.replicate post.length []) := by
  have h1 := absent_trace (init : State κ ν) pre w (absent_init w)
    (fun c hc => hfresh c (by simp [hc]))
  have hg : get (run (init : State κ ν) pre) k = none := by
    rw [kv_is_last_write, lastWrite_spec_none k pre hpre]
  have h2 := (absent_notify (run init pre) k w h1.2).2 hg
  have h3 := pend_trace _ mid k w h2.2
    (fun c hc => ⟨(hmid c hc).1, (hmid c hc).2, hfresh c (by simp [hc])⟩)
  have h4 := pend_write _ k w v h3.2
  have h5 := absent_trace _ post w h4.2 (fun c hc => hfresh c (by simp [hc]))
  rw [trace_append, List.map_append, h1.1]
  simp only [trace, List.map_cons, h2.1]
  rw [trace_append, List.map_append, h3.1]
  simp only [trace, List.map_cons, h4.1, h5.1]

/-- Without a write to `k` a waiter on `k` is never answered (no stale or invented value), and a
`reopen` cancels it for good: nothing is ever delivered to `w`, whatever follows. -/
theorem notify_unanswered_without_write (k : κ) (w : Nat) (pre mid : List (Cmd κ ν))
    (hpre : ∀ c ∈ pre, Cmd.writes k c = false)
    (hmid : ∀ c ∈ mid, Cmd.writes k c = false ∧ Cmd.isReopen c = false)
    (hfresh : ∀ c ∈ pre ++ mid, Cmd.usesWaiter w c = false) :
    (∀ rs ∈ trace (init : State κ ν) (pre ++ Cmd.notifyRead k w :: mid), got w rs = []) ∧
    (∀ post : List (Cmd κ ν), (∀ c ∈ post, Cmd.usesWaiter w c = false) →
      ∀ rs ∈ trace (init : State κ ν) (pre ++ Cmd.notifyRead k w :: (mid ++ Cmd.reopen :: post)),
        got w rs = []) := by
  have h1 := absent_trace (init : State κ ν) pre w (absent_init w)
    (fun c hc => hfresh c (by simp [hc]))
  have hg : get (run (init : State κ ν) pre) k = none := by
    rw [kv_is_last_write, lastWrite_spec_none k pre hpre]
  have h2 := (absent_notify (run init pre) k w h1.2).2 hg
  have h3 := pend_trace _ mid k w h2.2
    (fun c hc => ⟨(hmid c hc).1, (hmid c hc).2, hfresh c (by simp [hc])⟩)
  have key : ∀ (l : List (List (Reply ν))) (L : List (List ν)), l.map (got w) = L →
      (∀ x ∈ L, x = []) → ∀ rs ∈ l, got w rs = [] := by
    intro l L hl hL rs hrs
    exact hL _ (hl ▸ List.mem_map_of_mem hrs)
  refine ⟨?_, ?_⟩
  · apply key _ (List.replicate pre.length [] ++ [] :: List.replicate mid.length [])
    · rw [trace_append, List.map_append, h1.1]
      simp only [trace, List.map_cons, h2.1, h3.1]
    · intro x hx
      simp only [List.mem_append, List.mem_cons, List.mem_replicate] at hx
      rcases hx with h | h | h
      · exact h.2
      · exact h
      · exact h.2
  · intro post hpost
    have h4 : Absent (step (run (step (run init pre) (Cmd.notifyRead k w)).1 mid) Cmd.reopen).1 w := by
      intro p hp; simp [step] at hp
    have h5 := absent_trace _ post w h4 hpost
    apply key _ (List.replicate pre.length [] ++ [] :: (List.replicate mid.length [] ++
        [] :: List.replicate post.length []))
    · rw [trace_append, List.map_append, h1.1]
      simp only [trace, List.map_cons, h2.1]
      rw [trace_append, List.map_append, h3.1]
      simp only [trace, List.map_cons, h5.1]
      simp [step, got]
    · intro x hx
      simp only [List.mem_append, List.mem_cons, List.mem_replicate] at hx
      rcases hx with h | h | h | h | h
      · exact h.2
      · exact h
      · exact h.2
      · exact h
      · exact h.2

/-- Non-vacuity: two handles, three waiters on one key, an overwrite, a reopen and a stale waiter.
Waiters 1 and 2 (parked before the write) are both woken by the first write with *its* value,
waiter 3 (after the write) is answered at once with the then-current value, waiter 4 parked on
another key is cancelled by the reopen, and the data survives the reopen. -/
example :
    let cs : List (Cmd Nat Nat) :=
      [.notifyRead 7 1, .read 7, .notifyRead 7 2, .notifyRead 8 4, .write 7 100, .write 7 200,
       .notifyRead 7 3, .reopen, .write 8 5, .read 7]
    trace init cs =
      [[], [.readReply none], [], [], [.notified 1 100, .notified 2 100], [], [.notified 3 200],
       [], [], [.readReply (some 200)]] := by
  decide

end HS.C16
