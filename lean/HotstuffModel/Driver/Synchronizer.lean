import HotstuffModel.Driver.Sexp
import HotstuffModel.Model.Synchronizer
/-
Driver for the timed model of the consensus `Synchronizer` task (`HS.Sync`; C07).  Digests, blocks
and authorities are numbers (the harness interns the real ones).  Lines:
  (sy init DELAY)              -> (ok)             new task, `sync_retry_delay` = DELAY ms
  (sy suspend B P A NOW)       -> (outs OUT ...)   block B (parent P, author A) is handed over at NOW
  (sy stored P)                -> (outs OUT ...)   P is written to the store
  (sy tick NOW)                -> (outs OUT ...)   the timer fires at NOW
OUT = (request A P) | (broadcast P) | (loopback B)
-/
namespace HS.Driver
open Sexp

structure SYState where
  delay : Nat := 0
  s : HS.Sync.State := {}

def syOut : HS.Sync.Out → Sexp
  | .request a p => node "request" [ofNat a, ofNat p]
  | .broadcast p => node "broadcast" [ofNat p]
  | .loopback b => node "loopback" [ofNat b]

def stepSY (st : SYState) (e : Sexp) : Option (SYState × Sexp) :=
  let go (ev : HS.Sync.Event) : Option (SYState × Sexp) :=
    let r := HS.Sync.step st.delay st.s ev
    some ({ st with s := r.1 }, node "outs" (r.2.map syOut))
  match e with
  | .list [.atom "sy", .atom "init", d] => some ({ delay := natD d, s := {} }, node "ok" [])
  | .list [.atom "sy", .atom "suspend", b, p, a, now] => go (.suspend (natD b) (natD p) (natD a) (natD now))
  | .list [.atom "sy", .atom "stored", p] => go (.stored (natD p))
  | .list [.atom "sy", .atom "tick", now] => go (.tick (natD now))
  | _ => none

end HS.Driver
