import HotstuffModel.Driver.Sexp
import HotstuffModel.Model.BatchMaker
/-
Driver for the BatchMaker / batch-encoding model (C11).  Byte strings are atoms `x<hex>`.
  (bm init BATCHSIZE DELAYMS NOW true|false)  -> (ok lenfirst true|false)   new task, armed at NOW+DELAY;
                                                 the flag is the `benchmark` feature of the build compared against
  (bm tx NOW xBYTES)                          -> (outs OUT ...)   the task takes a transaction at time NOW
  (bm clock NOW)                              -> (outs OUT ...)   the clock reads NOW (timer fires if due)
  (bm handler xFRAME)                         -> (forward xFRAME) | (drop)   MempoolReceiverHandler, batch path
OUT = (sealed xSERIALIZED) | (panic SITE)      SERIALIZED = bincode of MempoolMessage::Batch
-/
namespace HS.Driver
open Sexp

def bmHexDigit (c : Char) : Nat :=
  if '0' ≤ c ∧ c ≤ '9' then c.toNat - '0'.toNat
  else if 'a' ≤ c ∧ c ≤ 'f' then c.toNat - 'a'.toNat + 10
  else if 'A' ≤ c ∧ c ≤ 'F' then c.toNat - 'A'.toNat + 10
  else 0

partial def bmHexPairs : List Char → List Nat
  | a :: b :: rest => (bmHexDigit a * 16 + bmHexDigit b) :: bmHexPairs rest
  | _ => []

/-- `x0a0b` -> [10, 11] -/
def bmBytesOfAtom (s : String) : List Nat := bmHexPairs (s.toList.drop 1)

def bmHexChar (n : Nat) : Char := if n < 10 then Char.ofNat (48 + n) else Char.ofNat (87 + n)

def bmAtomOfBytes (l : List Nat) : Sexp :=
  atom (String.ofList ('x' :: l.flatMap (fun b => [bmHexChar (b / 16 % 16), bmHexChar (b % 16)])))

structure BMState where
  cfg : HS.BM.Cfg := { batchSize := 0 }
  delay : Nat := 0
  t : HS.BM.TState := {}

def bmOut : HS.BM.TOut → Sexp
  | .sealed b => node "sealed" [bmAtomOfBytes (HS.BM.encodeBatch b)]
  | .panic .sealSampleScanIndex => node "panic" [atom "batch_maker-empty-tx-benchmark"]

def stepBM (st : BMState) (e : Sexp) : Option (BMState × Sexp) :=
  match e with
  | .list [.atom "bm", .atom "init", bs, delay, now, .atom bench] =>
    let cfg : HS.BM.Cfg := { batchSize := natD bs, benchmark := bench == "true" }
    some ({ cfg := cfg, delay := natD delay, t := { deadline := natD now + natD delay } },
      node "ok" [atom "lenfirst", atom (toString cfg.lenFirst)])
  | .list [.atom "bm", .atom "tx", now, .atom bytes] =>
    let (t', outs) := HS.BM.txAt st.cfg st.delay st.t (natD now) (bmBytesOfAtom bytes)
    some ({ st with t := t' }, node "outs" (outs.map bmOut))
  | .list [.atom "bm", .atom "clock", now] =>
    let (t', outs) := HS.BM.clockAt st.cfg st.delay st.t (natD now)
    some ({ st with t := t' }, node "outs" (outs.map bmOut))
  | .list [.atom "bm", .atom "handler", .atom frame] =>
    match HS.BM.receiverHandler (bmBytesOfAtom frame) with
    | some f => some (st, node "forward" [bmAtomOfBytes f])
    | none => some (st, node "drop" [])
  | _ => none

end HS.Driver
