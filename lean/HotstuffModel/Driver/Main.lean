import HotstuffModel.Driver.Sexp
import HotstuffModel.Model.Committee
/-
Model driver: one request per line on stdin (an s-expression), one answer line on stdout.
The harness (Rust) sends the same inputs to the real code and diffs the answers.
-/
namespace HS.Driver
open Sexp

def parseCommittee (e : Sexp) : Committee :=
  ⟨e.items.map (fun p => match p with
    | .list [k, s] => (natD k, natD s)
    | _ => (0, 0))⟩

/-- Pure request handler for the stateless (E1) commands. -/
def handlePure (e : Sexp) : Option Sexp :=
  match e with
  | .list [.atom "qt", n] =>
    some (ofNats [Gen.qtConsensus (natD n), Gen.qtMempool (natD n),
                  (Gen.qtConsensusU32 (UInt32.ofNat (natD n))).toNat,
                  (Gen.qtMempoolU32 (UInt32.ofNat (natD n))).toNat])
  | .list [.atom "committee-info", c, ks] =>
    let c := parseCommittee c
    some (node "info" [ofNat c.total, ofNat c.quorum, ofNat c.quorumMempool,
      ofNats ((nats ks).map c.stake), ofNats ((nats ks).map c.stakeMempool)])
  | _ => none

partial def loop (h : IO.FS.Stream) (out : IO.FS.Stream) : IO Unit := do
  let line ← h.getLine
  if line.isEmpty then return ()
  match Sexp.parse line with
  | none => out.putStrLn "(error parse)"
  | some e =>
    match handlePure e with
    | some r => out.putStrLn (toString r)
    | none => out.putStrLn "(error unknown-command)"
  out.flush
  loop h out

end HS.Driver

def main : IO Unit := do
  HS.Driver.loop (← IO.getStdin) (← IO.getStdout)
