import HotstuffModel.Driver.Sexp
import HotstuffModel.Driver.Node
import HotstuffModel.Driver.Unit
import HotstuffModel.Driver.Codec
import HotstuffModel.Driver.Store
import HotstuffModel.Driver.QuorumWaiter
import HotstuffModel.Driver.ReliableSender
import HotstuffModel.Driver.BatchMaker
import HotstuffModel.Driver.MempoolSync
import HotstuffModel.Driver.Synchronizer
import HotstuffModel.Driver.Timer
import HotstuffModel.Driver.ProposerWait
import HotstuffModel.Model.Committee
/-
Model driver: one request per line on stdin (an s-expression), one answer line on stdout.
The harness (Rust) sends the same inputs to the real code and diffs the answers.
-/
namespace HS.Driver
open Sexp

/-- Pure request handler for the stateless quorum commands. -/
def handlePure (e : Sexp) : Option Sexp :=
  match e with
  | .list [.atom "qt", n] =>
    some (ofNats [Gen.qtConsensus (natD n), Gen.qtMempool (natD n),
                  (Gen.qtConsensusU32 (UInt32.ofNat (natD n))).toNat,
                  (Gen.qtMempoolU32 (UInt32.ofNat (natD n))).toNat])
  | .list [.atom "committee-info", c, ks] =>
    let c := parseCommittee c
    some (node "info" [ofNat c.total, ofNat c.quorum, ofNat c.quorumMempool,
      ofNats ((nats ks).map c.stake), ofNats ((nats ks).map c.stakeMempool)])
  | _ => none

structure DState where
  node : Option NodeDriver := none
  agg : Option AggDriver := none
  store : StoreState := {}
  qw : QWState := {}
  rs : RSState := {}
  bm : BMState := {}
  ms : MSState := {}
  sy : SYState := {}
  tm : HS.Timer.T := ⟨0, 0⟩

def dispatch (st : DState) (e : Sexp) : DState × Sexp :=
  match handlePure e with
  | some r => (st, r)
  | none =>
  match handlePW e with
  | some r => (st, r)
  | none =>
  match Codec.handleCodec e with
  | some r => (st, r)
  | none =>
  match stepStore st.store e with
  | some (s', r) => ({ st with store := s' }, r)
  | none =>
  match stepQW st.qw e with
  | some (s', r) => ({ st with qw := s' }, r)
  | none =>
  match stepBM st.bm e with
  | some (s', r) => ({ st with bm := s' }, r)
  | none =>
  match stepRS st.rs e with
  | some (s', r) => ({ st with rs := s' }, r)
  | none =>
  match stepMS st.ms e with
  | some (s', r) => ({ st with ms := s' }, r)
  | none =>
  match stepSY st.sy e with
  | some (s', r) => ({ st with sy := s' }, r)
  | none =>
  match stepTM st.tm e with
  | some (s', r) => ({ st with tm := s' }, r)
  | none =>
  match handleUnit e with
  | some r => (st, r)
  | none =>
  match stepNode st.node e with
  | some (n, r) => ({ st with node := n }, r)
  | none =>
  match stepAgg st.agg e with
  | some (a, r) => ({ st with agg := a }, r)
  | none => (st, .list [.atom "error", .atom "unknown-command"])

partial def loop (h : IO.FS.Stream) (out : IO.FS.Stream) (st : DState) : IO Unit := do
  let line ← h.getLine
  if line.isEmpty then return ()
  match Sexp.parse line with
  | none =>
    out.putStrLn "(error parse)"
    out.flush
    loop h out st
  | some e =>
    let (st', r) := dispatch st e
    out.putStrLn (toString r)
    out.flush
    loop h out st'

end HS.Driver

def main : IO Unit := do
  HS.Driver.loop (← IO.getStdin) (← IO.getStdout) {}
