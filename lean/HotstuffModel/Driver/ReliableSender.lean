import HotstuffModel.Driver.Sexp
import HotstuffModel.Model.ReliableSender
/-
Line-protocol front end for the reliable-sender model (`HS.RS`, one `Connection`).

  (rs reset)                 → (rs-ok)
  (rs ev EVENT)              → (rs-out OUT…)            one step, what it emitted
  (rs evs EVENT)             → (rs-step (rs-out OUT…) (rs-state …))   one step: emitted + new state
  (rs run (EVENT…))          → (rs-out OUT…)            several steps, everything emitted
  (rs state)                 → (rs-state MODE CONN# DELAY RETRY (pending…) (writing: 0 or 1 id) (buffer…) (chan…) (closed…))

  EVENT  (send ID) | (cancel ID) | connectOk | connectFail | timerFired | recvMsg | writeBegin | writeOk | writeFail
         | (ackRead BYTES) | readClosed
  OUT    (frame CONN# ID) | (ackd CONN# ID BYTES) | (resolve ID BYTES)
-/
namespace HS.Driver
open Sexp

abbrev RSState := HS.RS.State

def parseRSEvent : Sexp → Option HS.RS.Event
  | .list [.atom "send", n] => (nat? n).map .send
  | .list [.atom "cancel", n] => (nat? n).map .cancel
  | .atom "connectOk" => some .connectOk
  | .atom "connectFail" => some .connectFail
  | .atom "timerFired" => some .timerFired
  | .atom "recvMsg" => some .recvMsg
  | .atom "writeBegin" => some .writeBegin
  | .atom "writeOk" => some .writeOk
  | .atom "writeFail" => some .writeFail
  | .list [.atom "ackRead", b] => (nat? b).map .ackRead
  | .atom "readClosed" => some .readClosed
  | _ => none

def printRSOut : HS.RS.Out → Sexp
  | .frame c id => node "frame" [ofNat c, ofNat id]
  | .ackd c id b => node "ackd" [ofNat c, ofNat id, ofNat b]
  | .resolve id b => node "resolve" [ofNat id, ofNat b]

def printRSMode : HS.RS.Mode → Sexp
  | .connecting => .atom "connecting"
  | .waiting => .atom "waiting"
  | .connected => .atom "connected"

def printRSState (s : RSState) : Sexp :=
  node "rs-state" [printRSMode s.mode, ofNat s.connNo, ofNat s.delay, ofNat s.retry,
    ofNats s.pending, ofNats s.writing.toList, ofNats s.buffer, ofNats s.chan, ofNats s.closed]

def parseRSEvents (l : List Sexp) : Option (List HS.RS.Event) :=
  l.foldr (fun e acc => match parseRSEvent e, acc with
    | some e, some acc => some (e :: acc)
    | _, _ => none) (some [])

/-- Stateful step of the reliable-sender area; `none` if the command is not one of ours. -/
def stepRS (s : RSState) (e : Sexp) : Option (RSState × Sexp) :=
  match e with
  | .list [.atom "rs", .atom "reset"] => some (HS.RS.init, .list [.atom "rs-ok"])
  | .list [.atom "rs", .atom "state"] => some (s, printRSState s)
  | .list [.atom "rs", .atom "ev", ev] =>
    match parseRSEvent ev with
    | some ev => some (HS.RS.step s ev, node "rs-out" ((HS.RS.outs s ev).map printRSOut))
    | none => some (s, .list [.atom "error", .atom "rs-bad-event"])
  | .list [.atom "rs", .atom "evs", ev] =>
    match parseRSEvent ev with
    | some ev =>
      let s' := HS.RS.step s ev
      some (s', node "rs-step" [node "rs-out" ((HS.RS.outs s ev).map printRSOut), printRSState s'])
    | none => some (s, .list [.atom "error", .atom "rs-bad-event"])
  | .list [.atom "rs", .atom "run", .list evs] =>
    match parseRSEvents evs with
    | some evs => some (HS.RS.run s evs, node "rs-out" ((HS.RS.runO s evs).map printRSOut))
    | none => some (s, .list [.atom "error", .atom "rs-bad-event"])
  | _ => none

end HS.Driver
