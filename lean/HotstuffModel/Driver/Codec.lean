import HotstuffModel.Driver.Sexp
import HotstuffModel.Model.Preimage
/-
Driver commands for the byte-level codec model (C20 / C18 / C15-decode).  Not verified.

Byte strings travel as atoms `x<hex>` (`x` alone = empty string).  Numbers are decimal.

  (b64enc xHEX)                      -> xASCIIHEX
  (b64dec xASCIIHEX)                 -> (ok xHEX) | (err)
  (keyenc xHEX)                      -> xASCIIHEX
  (keydec xASCIIHEX)                 -> (ok xHEX) | (err) | (panic)        PublicKey::decode_base64
  (skeydec xASCIIHEX)                -> (ok xHEX) | (err) | (panic)        SecretKey::decode_base64
  (le64 N)                           -> xHEX
  (pre-block xAUTHOR ROUND (xD ...) xPARENT) -> xHEX
  (pre-vote xHASH ROUND)             -> xHEX
  (pre-timeout ROUND HQROUND)        -> xHEX
  (pre-batch (xTX ...))              -> xHEX
  (enc-cmsg CMSG) / (enc-mmsg MMSG) / (enc-block BLOCK) -> xHEX
  (dec-cmsg xHEX)                    -> (ok xREENC PRE) | (err) | (panic)   PRE = xHEX pre-image or `-`
  (dec-mmsg xHEX)                    -> (ok xREENC) | (err) | (panic)
  (dec-block xHEX)                   -> (ok xREENC xPRE) | (err) | (panic)
  (sync-path xHEX)                   -> stored block bytes -> Helper -> Propose frame -> receiver:
                                        (ok xFRAME xPRE) | (err) | (panic)
A trailing atom `checked` on keydec/skeydec/dec-* selects `checkedSlice = true` (the repaired code);
the default is `HS.Wire.currentCheckedSlice` (the code as it is).

Structured values:
  SIG     = x<128 hex>                         (part1 ‖ part2)
  QC      = (qc xHASH ROUND ((xPK SIG) ...))
  TC      = (tc ROUND ((xPK SIG HQROUND) ...))
  BLOCK   = (block QC (none)|(some TC) xAUTHOR ROUND (xD ...) SIG)
  VOTE    = (vote xHASH ROUND xAUTHOR SIG)
  TIMEOUT = (timeout QC ROUND xAUTHOR SIG)
  CMSG    = (propose BLOCK) | VOTE | TIMEOUT | TC | (sync xDIGEST xPK)
  MMSG    = (batch (xTX ...)) | (batchreq (xD ...) xPK)
-/
namespace HS.Driver.Codec
open HS.Driver HS.Driver.Sexp HS.Wire

def hexDigit (n : Nat) : Char :=
  if n < 10 then Char.ofNat (48 + n) else Char.ofNat (87 + n)

def hexVal (c : Char) : Option Nat :=
  let n := c.toNat
  if 48 ≤ n ∧ n ≤ 57 then some (n - 48)
  else if 97 ≤ n ∧ n ≤ 102 then some (n - 87)
  else if 65 ≤ n ∧ n ≤ 70 then some (n - 55)
  else none

def toHexChars (bs : List UInt8) : List Char :=
  (bs.foldl (fun acc b => hexDigit (b.toNat % 16) :: hexDigit (b.toNat / 16) :: acc) []).reverse

def hexAtom (bs : List UInt8) : Sexp := .atom (String.ofList ('x' :: toHexChars bs))

def parseHexChars (cs : List Char) : Option (List UInt8) :=
  let rec go (cs : List Char) (acc : List UInt8) (fuel : Nat) : Option (List UInt8) :=
    match fuel, cs with
    | _, [] => some acc.reverse
    | 0, _ => none
    | fuel + 1, a :: b :: rest =>
      match hexVal a, hexVal b with
      | some x, some y => go rest (UInt8.ofNat (x * 16 + y) :: acc) fuel
      | _, _ => none
    | _, _ => none
  go cs [] cs.length

def bytes? : Sexp → Option (List UInt8)
  | .atom s =>
    match s.toList with
    | 'x' :: cs => parseHexChars cs
    | _ => none
  | _ => none

def sig? (e : Sexp) : Option Sig := do
  let b ← bytes? e
  some ⟨b.take 32, b.drop 32⟩

def mapM? {α β : Type} (f : α → Option β) : List α → Option (List β)
  | [] => some []
  | x :: xs => do let y ← f x; let ys ← mapM? f xs; some (y :: ys)

def qc? : Sexp → Option QC
  | .list [.atom "qc", h, r, .list vs] => do
    let h ← bytes? h
    let r ← nat? r
    let vs ← mapM? (fun v => match v with
      | .list [k, s] => do let k ← bytes? k; let s ← sig? s; some (k, s)
      | _ => none) vs
    some ⟨h, r, vs⟩
  | _ => none

def tc? : Sexp → Option TC
  | .list [.atom "tc", r, .list vs] => do
    let r ← nat? r
    let vs ← mapM? (fun v => match v with
      | .list [k, s, q] => do let k ← bytes? k; let s ← sig? s; let q ← nat? q; some (k, s, q)
      | _ => none) vs
    some ⟨r, vs⟩
  | _ => none

def block? : Sexp → Option Block
  | .list [.atom "block", qc, tc, a, r, .list p, s] => do
    let qc ← qc? qc
    let tc ← match tc with
      | .list [.atom "none"] => some none
      | .list [.atom "some", t] => (tc? t).map some
      | _ => none
    let a ← bytes? a
    let r ← nat? r
    let p ← mapM? bytes? p
    let s ← sig? s
    some ⟨qc, tc, a, r, p, s⟩
  | _ => none

def vote? : Sexp → Option Vote
  | .list [.atom "vote", h, r, a, s] => do
    let h ← bytes? h; let r ← nat? r; let a ← bytes? a; let s ← sig? s
    some ⟨h, r, a, s⟩
  | _ => none

def timeout? : Sexp → Option Timeout
  | .list [.atom "timeout", q, r, a, s] => do
    let q ← qc? q; let r ← nat? r; let a ← bytes? a; let s ← sig? s
    some ⟨q, r, a, s⟩
  | _ => none

def cmsg? (e : Sexp) : Option CMsg :=
  match e with
  | .list [.atom "propose", b] => (block? b).map .propose
  | .list [.atom "sync", d, k] => do let d ← bytes? d; let k ← bytes? k; some (.syncRequest d k)
  | .list (.atom "vote" :: _) => (vote? e).map .vote
  | .list (.atom "timeout" :: _) => (timeout? e).map .timeout
  | .list (.atom "tc" :: _) => (tc? e).map .tc
  | _ => none

def mmsg? : Sexp → Option MMsg
  | .list [.atom "batch", .list txs] => (mapM? bytes? txs).map .batch
  | .list [.atom "batchreq", .list ds, k] => do
    let ds ← mapM? bytes? ds; let k ← bytes? k; some (.batchRequest ds k)
  | _ => none

def resSexp {α : Type} (r : Res α) (f : α → List Sexp) : Sexp :=
  match r with
  | .ok a => node "ok" (f a)
  | .err => .list [.atom "err"]
  | .panic => .list [.atom "panic"]

def preAtom : Option (List UInt8) → Sexp
  | some p => hexAtom p
  | none => .atom "-"

/-- Split a trailing `checked` flag off the argument list. -/
def flag (args : List Sexp) : List Sexp × Bool :=
  match args.reverse with
  | .atom "checked" :: r => (r.reverse, true)
  | _ => (args, currentCheckedSlice)

def handleCodec (e : Sexp) : Option Sexp :=
  match e with
  | .list (.atom cmd :: args0) =>
    let (args, c) := flag args0
    match cmd, args with
    | "b64enc", [b] => do let b ← bytes? b; some (hexAtom (Base64.encode b))
    | "b64dec", [s] => do
      let s ← bytes? s
      match Base64.decode s with
      | some b => some (node "ok" [hexAtom b])
      | none => some (.list [.atom "err"])
    | "keyenc", [b] => do let b ← bytes? b; some (hexAtom (encodeKey b))
    | "keydec", [s] => do let s ← bytes? s; some (resSexp (decodePublicKey c s) (fun k => [hexAtom k]))
    | "skeydec", [s] => do let s ← bytes? s; some (resSexp (decodeSecretKey c s) (fun k => [hexAtom k]))
    | "le64", [n] => do let n ← nat? n; some (hexAtom (le64 n))
    | "pre-block", [a, r, .list p, q] => do
      let a ← bytes? a; let r ← nat? r; let p ← mapM? bytes? p; let q ← bytes? q
      some (hexAtom (blockPre a r p q))
    | "pre-vote", [h, r] => do let h ← bytes? h; let r ← nat? r; some (hexAtom (votePre h r))
    | "pre-timeout", [r, q] => do let r ← nat? r; let q ← nat? q; some (hexAtom (timeoutPre r q))
    | "pre-batch", [.list txs] => do let txs ← mapM? bytes? txs; some (hexAtom (batchPre txs))
    | "enc-cmsg", [m] => do let m ← cmsg? m; some (hexAtom (encCMsg m))
    | "enc-mmsg", [m] => do let m ← mmsg? m; some (hexAtom (encMMsg m))
    | "enc-block", [b] => do let b ← block? b; some (hexAtom (encBlock b))
    | "dec-cmsg", [b] => do
      let b ← bytes? b
      some (resSexp ((decCMsg c).run b) (fun (m, _) => [hexAtom (encCMsg m), preAtom m.pre]))
    | "dec-mmsg", [b] => do
      let b ← bytes? b
      some (resSexp ((decMMsg c).run b) (fun (m, _) => [hexAtom (encMMsg m)]))
    | "dec-block", [b] => do
      let b ← bytes? b
      some (resSexp ((decBlock c).run b) (fun (m, _) => [hexAtom (encBlock m), hexAtom m.pre]))
    | "sync-path", [b] => do
      let b ← bytes? b
      some (resSexp (syncPath c b) (fun (f, m) => [hexAtom f, preAtom m.pre]))
    | _, _ => none
  | _ => none

end HS.Driver.Codec
