/-
S-expression reader/printer for the line protocol between the Rust harness and the model
driver.  Not part of the verified model (trusted: see DESIGN §6).
-/
namespace HS.Driver

inductive Sexp where
  | atom (s : String)
  | list (l : List Sexp)
  deriving Inhabited, Repr

namespace Sexp

partial def toStr : Sexp → String
  | atom s => s
  | list l => "(" ++ " ".intercalate (l.map toStr) ++ ")"

instance : ToString Sexp := ⟨toStr⟩

private def isDelim (c : Char) : Bool := c == '(' || c == ')' || c == ' ' || c == '\t' || c == '\n' || c == '\r'

/-- Parse one expression from a char list; returns the rest. -/
partial def parseOne : List Char → Option (Sexp × List Char)
  | [] => none
  | c :: cs =>
    if c == ' ' || c == '\t' || c == '\n' || c == '\r' then parseOne cs
    else if c == '(' then parseList cs []
    else if c == ')' then none
    else
      let tok := (c :: cs).takeWhile (fun x => !isDelim x)
      let rest := (c :: cs).dropWhile (fun x => !isDelim x)
      some (atom (String.ofList tok), rest)
where
  parseList : List Char → List Sexp → Option (Sexp × List Char)
    | [], _ => none
    | c :: cs, acc =>
      if c == ' ' || c == '\t' || c == '\n' || c == '\r' then parseList cs acc
      else if c == ')' then some (list acc.reverse, cs)
      else match parseOne (c :: cs) with
        | some (e, rest) => parseList rest (e :: acc)
        | none => none

def parse (s : String) : Option Sexp :=
  match parseOne s.toList with
  | some (e, _) => some e
  | none => none

def nat? : Sexp → Option Nat
  | atom s => s.toNat?
  | _ => none

def natD (e : Sexp) : Nat := (nat? e).getD 0

def items : Sexp → List Sexp
  | list l => l
  | atom _ => []

def head? : Sexp → Option String
  | list (atom h :: _) => some h
  | _ => none

def args : Sexp → List Sexp
  | list (_ :: t) => t
  | _ => []

def nats (e : Sexp) : List Nat := e.items.map natD

def ofNat (n : Nat) : Sexp := atom (toString n)
def ofNats (l : List Nat) : Sexp := list (l.map ofNat)
def node (h : String) (l : List Sexp) : Sexp := list (atom h :: l)

end Sexp
end HS.Driver
