import HotstuffModel.Driver.Sexp
import HotstuffModel.Model.QuorumWaiter
/-
Driver for the QuorumWaiter model (C12).  Lines:
  (qw init ((NAME STAKE) ...) OWNSTAKE)   -> (ok THRESHOLD)       new task for this committee
  (qw batch ID (NAME ...))                -> (outs OUT ...)       a QuorumWaiterMessage arrives
  (qw ack ID IDX)                         -> (outs OUT ...)       handler IDX of batch ID is ACKed
  (qw dropped ID IDX)                     -> (outs OUT ...)       … its sender is dropped
  (qw state)                              -> (state (cur ID TOTAL)|(idle) (queue ID ...))
OUT = (forward ID (NAME ...)) | (gaveup ID)
-/
namespace HS.Driver
open Sexp

structure QWState where
  cfg : HS.QW.Cfg := ⟨0, 0, fun _ => 0⟩
  s : HS.QW.State := {}

def qwOut : HS.QW.Out → Sexp
  | .forward id ack => node "forward" [ofNat id, ofNats ack]
  | .gaveUp id => node "gaveup" [ofNat id]

def stepQW (st : QWState) (e : Sexp) : Option (QWState × Sexp) :=
  let go (ev : HS.QW.Ev) : Option (QWState × Sexp) :=
    let (s', outs) := HS.QW.step st.cfg st.s ev
    some ({ st with s := s' }, node "outs" (outs.map qwOut))
  match e with
  | .list [.atom "qw", .atom "init", c, own] =>
    let com : Committee := ⟨c.items.map (fun p => match p with
      | .list [k, s] => (natD k, natD s)
      | _ => (0, 0))⟩
    let cfg := HS.QW.Cfg.ofCommittee com (natD own)
    some ({ cfg := cfg, s := {} }, node "ok" [ofNat cfg.q])
  | .list [.atom "qw", .atom "batch", id, names] => go (.batch (natD id) (nats names))
  | .list [.atom "qw", .atom "ack", id, i] => go (.complete (natD id) (natD i) true)
  | .list [.atom "qw", .atom "dropped", id, i] => go (.complete (natD id) (natD i) false)
  | .list [.atom "qw", .atom "state"] =>
    let cur := match st.s.cur with
      | some c => node "cur" [ofNat c.id, ofNat c.total]
      | none => node "idle" []
    some (st, node "state" [cur, node "queue" (st.s.queue.map (fun b => ofNat b.id))])
  | _ => none

end HS.Driver
