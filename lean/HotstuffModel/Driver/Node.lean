import HotstuffModel.Driver.Sexp
import HotstuffModel.Model.Node
/-
Line-protocol front end for the node model: symbolic messages in, canonical observations out.
Canonical text forms (shared with the harness, see harness/src/sym.rs):
  digest   z | (r N) | (b AUTHOR ROUND (PAYLOAD…sorted) PARENT)
  content  (cb D) | (cv D R) | (ct R HQ) | (cj N)
  sig      (s SIGNER CONTENT)
  qc       (qc D R ((K SIG)…))          tc  (tc R ((K SIG HQ)…))
  block    (blk QC TC|nil AUTHOR ROUND (PAYLOAD…sorted) SIG)
  vote     (v D R AUTHOR SIG)            timeout (to QC R AUTHOR SIG)
-/
namespace HS.Driver
open Sexp

def sortNat (l : List Nat) : List Nat := HS.sortKeys l

partial def parseDigest : Sexp → Digest
  | .atom "z" => .zero
  | .list [.atom "r", n] => .raw (natD n)
  | .list [.atom "b", a, r, p, par] => .block (natD a) (natD r) (nats p) (parseDigest par)
  | _ => .raw 999999999

partial def printDigest : Digest → Sexp
  | .zero => .atom "z"
  | .raw n => node "r" [ofNat n]
  | .block a r p par => node "b" [ofNat a, ofNat r, ofNats (sortNat p), printDigest par]

def parseContent : Sexp → Content
  | .list [.atom "cb", d] => .block (parseDigest d)
  | .list [.atom "cv", d, r] => .vote (parseDigest d) (natD r)
  | .list [.atom "ct", r, hq] => .timeout (natD r) (natD hq)
  | .list [.atom "cj", n] => .junk (natD n)
  | _ => .junk 999999999

def printContent : Content → Sexp
  | .block d => node "cb" [printDigest d]
  | .vote d r => node "cv" [printDigest d, ofNat r]
  | .timeout r hq => node "ct" [ofNat r, ofNat hq]
  | .junk n => node "cj" [ofNat n]

def parseSig : Sexp → Sig
  | .list [.atom "s", k, c] => ⟨natD k, parseContent c⟩
  | _ => ⟨0, .junk 999999999⟩

def printSig (s : Sig) : Sexp := node "s" [ofNat s.signer, printContent s.content]

def parseQC : Sexp → QC
  | .list [.atom "qc", d, r, vs] =>
    { hash := parseDigest d, round := natD r,
      votes := vs.items.map (fun v => match v with
        | .list [k, s] => (natD k, parseSig s)
        | _ => (0, ⟨0, .junk 0⟩)) }
  | _ => QC.genesis

def printQC (q : QC) : Sexp :=
  node "qc" [printDigest q.hash, ofNat q.round, .list (q.votes.map (fun v => .list [ofNat v.1, printSig v.2]))]

def parseTC : Sexp → TC
  | .list [.atom "tc", r, vs] =>
    { round := natD r,
      votes := vs.items.map (fun v => match v with
        | .list [k, s, hq] => (natD k, parseSig s, natD hq)
        | _ => (0, ⟨0, .junk 0⟩, 0)) }
  | _ => { round := 0, votes := [] }

def printTC (t : TC) : Sexp :=
  node "tc" [ofNat t.round, .list (t.votes.map (fun v => .list [ofNat v.1, printSig v.2.1, ofNat v.2.2]))]

def parseBlock : Sexp → Block
  | .list [.atom "blk", qc, tc, a, r, p, s] =>
    { qc := parseQC qc,
      tc := (match tc with | .atom "nil" => none | t => some (parseTC t)),
      author := natD a, round := natD r, payload := nats p, sig := parseSig s }
  | _ => Block.genesis

def printBlock (b : Block) : Sexp :=
  node "blk" [printQC b.qc, (match b.tc with | none => .atom "nil" | some t => printTC t),
    ofNat b.author, ofNat b.round, ofNats (sortNat b.payload), printSig b.sig]

def parseVote : Sexp → Vote
  | .list [.atom "v", d, r, a, s] => { hash := parseDigest d, round := natD r, author := natD a, sig := parseSig s }
  | _ => { hash := .zero, round := 0, author := 0, sig := ⟨0, .junk 0⟩ }

def printVote (v : Vote) : Sexp := node "v" [printDigest v.hash, ofNat v.round, ofNat v.author, printSig v.sig]

def parseTimeout : Sexp → Timeout
  | .list [.atom "to", qc, r, a, s] => { highQC := parseQC qc, round := natD r, author := natD a, sig := parseSig s }
  | _ => { highQC := QC.genesis, round := 0, author := 0, sig := ⟨0, .junk 0⟩ }

def printTimeout (t : Timeout) : Sexp := node "to" [printQC t.highQC, ofNat t.round, ofNat t.author, printSig t.sig]

def parseMsg : Sexp → Option Msg
  | .list [.atom "propose", b] => some (.propose (parseBlock b))
  | .list [.atom "vote", v] => some (.vote (parseVote v))
  | .list [.atom "timeout", t] => some (.timeout (parseTimeout t))
  | .list [.atom "tc", t] => some (.tc (parseTC t))
  | _ => none

def parseEvent : Sexp → Option Event
  | .list [.atom "msg", m] => (parseMsg m).map Event.msg
  | .list [.atom "timer"] => some .timer
  | .list [.atom "loopback"] => some .loopback
  | .list [.atom "proposer", o] => some (.proposer (nats o))
  | .list [.atom "digest", d] => some (.digest (natD d))
  | .list [.atom "batch", d] => some (.batch (natD d))
  | .list [.atom "syncResume", i] => some (.syncResume (natD i))
  | .list [.atom "payloadResume", i] => some (.payloadResume (natD i))
  | .list [.atom "syncRetry", d] => some (.syncRetry (parseDigest d))
  | .list [.atom "helper", d, o] => some (.helper (parseDigest d) (natD o))
  | _ => none

def printOut : Out → Sexp
  | .vote to v => node "vote" [ofNat to, printVote v]
  | .selfVote v => node "selfVote" [printVote v]
  | .timeout t => node "timeout" [printTimeout t]
  | .tc t => node "tc" [printTC t]
  | .propose b => node "propose" [printBlock b]
  | .commit b => node "commit" [printBlock b]
  | .syncRequest to d => node "syncRequest" [(match to with | none => .atom "all" | some k => ofNat k), printDigest d]
  | .mempoolSync m t => node "mempoolSync" [ofNats (sortNat m), ofNat t]
  | .mempoolCleanup r => node "mempoolCleanup" [ofNat r]
  | .helperReply to b => node "helperReply" [ofNat to, printBlock b]
  | .make r qc tc => node "make" [ofNat r, printQC qc, (match tc with | none => .atom "nil" | some t => printTC t)]
  | .entered r _ => node "entered" [ofNat r]
  | .voted b => node "voted" [printDigest b.digest]
  | .twoChain b0 b1 _ => node "twoChain" [ofNat b0.round, ofNat b1.round]

structure NodeDriver where
  c : Committee
  s : Node

/-- First enabled internal micro-step, in the priority order that mirrors the real task wake-ups. -/
def nextInternal (c : Committee) (s : Node) : Option Event :=
  if s.panic.isSome then none else
  let syncIdx := (List.range s.syncPending.length).find? (fun i =>
    match s.syncPending[i]? with
    | some b => (match s.readBlock b.parent with | .missing => false | _ => true)
    | none => false)
  match syncIdx with
  | some i => some (.syncResume i)
  | none =>
    let payIdx := (List.range s.payPending.length).find? (fun i =>
      match s.payPending[i]? with
      | some (_, missing) => missing.all (fun d => s.avail.contains d)
      | none => false)
    match payIdx with
    | some i => some (.payloadResume i)
    | none =>
      if !s.propQ.isEmpty then some (.proposer s.buffer)
      else if !s.loopQ.isEmpty then some .loopback
      else
        let _ := c
        none

partial def quiesce (c : Committee) (s : Node) (fuel : Nat := 10000) : Node :=
  if fuel == 0 then s else
  match nextInternal c s with
  | none => s
  | some e => quiesce c (Node.step c s e) (fuel - 1)

def stateSummary (s : Node) : Sexp :=
  node "st" [ofNat s.round, ofNat s.lastVoted, ofNat s.lastCommitted, ofNat s.highQC.round,
    (match s.panic with | none => .atom "ok" | some p => .atom (toString (repr p)).trimAscii.toString),
    ofNat s.syncPending.length, ofNat s.payPending.length, ofNat s.buffer.length]

def outsSince (old new : Node) : List Out :=
  (new.hist.take (new.hist.length - old.hist.length)).reverse

def stepNode (d : Option NodeDriver) (e : Sexp) : Option (Option NodeDriver × Sexp) :=
  match e with
  | .list [.atom "node-init", c, name] =>
    let c := parseCommittee' c
    let s0 := Node.init c (natD name)
    let s := quiesce c s0
    some (some ⟨c, s⟩, node "outs" ((s.hist.reverse.map printOut) ++ [stateSummary s]))
  | .list [.atom "ev", ev] =>
    match d, parseEvent ev with
    | some d, some ev =>
      let s1 := quiesce d.c (Node.step d.c d.s ev)
      some (some { d with s := s1 }, node "outs" ((outsSince d.s s1).map printOut ++ [stateSummary s1]))
    | _, _ => some (d, .list [.atom "error", .atom "bad-event-or-no-node"])
  | .list [.atom "ev1", ev] =>
    match d, parseEvent ev with
    | some d, some ev =>
      let s1 := Node.step d.c d.s ev
      some (some { d with s := s1 }, node "outs" ((outsSince d.s s1).map printOut ++ [stateSummary s1]))
    | _, _ => some (d, .list [.atom "error", .atom "bad-event-or-no-node"])
  | _ => none
where
  parseCommittee' (e : Sexp) : Committee :=
    ⟨e.items.map (fun p => match p with
      | .list [k, s] => (natD k, natD s)
      | _ => (0, 0))⟩

end HS.Driver
