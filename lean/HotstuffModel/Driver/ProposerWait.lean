import HotstuffModel.Driver.Sexp
import HotstuffModel.Model.ProposerWait
/-
Driver for the proposer's ACK wait (`HS.PW`; C06 L12).  Line:
  (pw wait QUORUM OWN (STAKE ...))  -> (wait CONSUMED 0|1)   stakes of the waiters in completion order
-/
namespace HS.Driver
open Sexp

def handlePW (e : Sexp) : Option Sexp :=
  match e with
  | .list [.atom "pw", .atom "wait", q, own, ss] =>
    let r := HS.PW.wait (natD q) (natD own) (nats ss)
    some (node "wait" [ofNat r.1, ofNat (if r.2 then 1 else 0)])
  | _ => none

end HS.Driver
