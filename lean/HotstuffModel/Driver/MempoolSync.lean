import HotstuffModel.Driver.Sexp
import HotstuffModel.Model.MempoolSync
/-
Driver for the model of the mempool's peer side (`HS.MS`; C11, C13).  Public keys, digests and
byte strings are numbers (the harness interns the real ones).  Lines:
  (ms init NAME (MEMBER ...) GCDEPTH DELAY NODES)  -> (ok)        new node, empty store, nothing pending
  (ms hash BYTES DIGEST)                           -> (ok)        declare SHA-512/256(BYTES) = DIGEST
  (ms frame BYTES)                                 -> (outs OUT ...)   a Batch frame arrives
  (ms request (DIGEST ...) ORIGIN)                 -> (outs OUT ...)   a BatchRequest frame arrives
  (ms garbage)                                     -> (outs OUT ...)   an undecodable frame arrives
  (ms sync (DIGEST ...) TARGET NOW)                -> (outs OUT ...)   Synchronize from consensus
  (ms cleanup ROUND)                               -> (outs OUT ...)   Cleanup from consensus
  (ms timer NOW (PEER ...))                        -> (outs OUT ...)   the retry timer fires
  (ms stored DIGEST)                               -> (outs OUT ...)   the waiter of DIGEST completes
  (ms write DIGEST BYTES)                          -> (outs OUT ...)   another task writes the store
  (ms settle)                                      -> (settled DIGEST ...)  every waiter whose digest is
                                                      in the store completes (what has happened in the
                                                      real node once it is quiescent); the digests that left `pending`
  (ms state)                                       -> (state (round R) (pending (D R TS) ...) (store (D B) ...))
OUT = (ack) | (stored D B) | (digest D) | (request T (D ...)) | (retry (P ...) (D ...)) | (reply O B)
-/
namespace HS.Driver
open Sexp

structure MSState where
  name : Nat := 0
  members : List Nat := []
  gcDepth : Nat := 0
  retryDelay : Nat := 0
  retryNodes : Nat := 0
  /-- the hash function as a table: bytes id → digest id (unknown bytes hash to 0) -/
  table : List (Nat × Nat) := []
  s : HS.MS.State := {}

def MSState.cfg (st : MSState) : HS.MS.Cfg :=
  { name := st.name, members := st.members, gcDepth := st.gcDepth, retryDelay := st.retryDelay,
    retryNodes := st.retryNodes, hash := fun b => (HS.MS.lookup st.table b).getD 0 }

def msOut : HS.MS.Out → Sexp
  | .ack => node "ack" []
  | .stored d b => node "stored" [ofNat d, ofNat b]
  | .digestToConsensus d => node "digest" [ofNat d]
  | .requestTo t ds => node "request" [ofNat t, ofNats ds]
  | .retryTo ps ds => node "retry" [ofNats ps, ofNats ds]
  | .reply o b => node "reply" [ofNat o, ofNat b]

/-- Keys of an association list, newest binding only. -/
def msStoreView (st : List (Nat × Nat)) : List (Nat × Nat) :=
  st.foldl (fun acc kv => if acc.any (fun x => x.1 == kv.1) then acc else acc ++ [kv]) []

def stepMS (st : MSState) (e : Sexp) : Option (MSState × Sexp) :=
  let go (ev : HS.MS.Event) : Option (MSState × Sexp) :=
    let r := HS.MS.step st.cfg st.s ev
    some ({ st with s := r.1 }, node "outs" (r.2.map msOut))
  match e with
  | .list [.atom "ms", .atom "init", name, members, gc, delay, nodes] =>
    some ({ name := natD name, members := nats members, gcDepth := natD gc, retryDelay := natD delay,
            retryNodes := natD nodes }, node "ok" [])
  | .list [.atom "ms", .atom "hash", b, d] =>
    some ({ st with table := (natD b, natD d) :: st.table }, node "ok" [])
  | .list [.atom "ms", .atom "frame", b] => go (.batchFrame (natD b))
  | .list [.atom "ms", .atom "request", ds, o] => go (.batchRequest (nats ds) (natD o))
  | .list [.atom "ms", .atom "garbage"] => go .garbage
  | .list [.atom "ms", .atom "sync", ds, t, now] => go (.synchronize (nats ds) (natD t) (natD now))
  | .list [.atom "ms", .atom "cleanup", r] => go (.cleanup (natD r))
  | .list [.atom "ms", .atom "timer", now, peers] => go (.timer (natD now) (nats peers))
  | .list [.atom "ms", .atom "stored", d] => go (.batchStored (natD d))
  | .list [.atom "ms", .atom "write", d, b] => go (.extWrite (natD d) (natD b))
  | .list [.atom "ms", .atom "settle"] =>
    let ready := (HS.MS.pendingDigests st.s.pending).filter (fun d => (HS.MS.lookup st.s.store d).isSome)
    let s' := ready.foldl (fun s d => (HS.MS.step st.cfg s (.batchStored d)).1) st.s
    some ({ st with s := s' }, node "settled" (ready.map ofNat))
  | .list [.atom "ms", .atom "state"] =>
    some (st, node "state" [
      node "round" [ofNat st.s.round],
      node "pending" (st.s.pending.map (fun x => ofNats [x.digest, x.round, x.ts])),
      node "store" ((msStoreView st.s.store).map (fun kv => ofNats [kv.1, kv.2]))])
  | _ => none

end HS.Driver
