import HotstuffModel.Driver.Node
/-
E1 commands: the verify functions, leader election and the aggregator, one call per line.
-/
namespace HS.Driver
open Sexp

def parseCommittee (e : Sexp) : Committee :=
  ⟨e.items.map (fun p => match p with
    | .list [k, s] => (natD k, natD s)
    | _ => (0, 0))⟩

def printVErr : VErr → String
  | .unknownAuthority => "unknownAuthority"
  | .invalidSignature => "invalidSignature"
  | .authorityReuse => "authorityReuse"
  | .qcRequiresQuorum => "qcRequiresQuorum"
  | .tcRequiresQuorum => "tcRequiresQuorum"
  | .wrongLeader => "wrongLeader"

def printVerdict : Except VErr Unit → Sexp
  | .ok _ => .atom "ok"
  | .error e => node "err" [.atom (printVErr e)]

def handleUnit (e : Sexp) : Option Sexp :=
  match e with
  | .list [.atom "verify-qc", c, q] => some (printVerdict ((parseQC q).verify (parseCommittee c)))
  | .list [.atom "verify-tc", c, t] => some (printVerdict ((parseTC t).verify (parseCommittee c)))
  | .list [.atom "verify-vote", c, v] => some (printVerdict ((parseVote v).verify (parseCommittee c)))
  | .list [.atom "verify-timeout", c, t] => some (printVerdict ((parseTimeout t).verify (parseCommittee c)))
  | .list [.atom "verify-block", c, b] => some (printVerdict ((parseBlock b).verify (parseCommittee c)))
  | .list [.atom "digest-block", b] => some (printDigest (parseBlock b).digest)
  | .list [.atom "leader", c, r] =>
    some (match (parseCommittee c).leader? (natD r) with
      | some k => ofNat k
      | none => .atom "panic")
  | .list [.atom "leaders", c, r0, n] =>
    let c := parseCommittee c
    some (ofNats ((List.range (natD n)).map (fun i => c.leader (natD r0 + i))))
  | _ => none

structure AggDriver where
  c : Committee
  a : Aggregator

def stepAgg (d : Option AggDriver) (e : Sexp) : Option (Option AggDriver × Sexp) :=
  match e with
  | .list [.atom "agg-init", c] => some (some ⟨parseCommittee c, {}⟩, .atom "ok")
  | .list [.atom "agg-vote", v] =>
    match d with
    | none => some (d, .atom "no-agg")
    | some d =>
      match d.a.addVote d.c (parseVote v) with
      | .error _ => some (some d, node "err" [.atom "authorityReuse"])
      | .ok (a, none) => some (some { d with a := a }, .atom "none")
      | .ok (a, some qc) => some (some { d with a := a }, printQC qc)
  | .list [.atom "agg-timeout", t] =>
    match d with
    | none => some (d, .atom "no-agg")
    | some d =>
      match d.a.addTimeout d.c (parseTimeout t) with
      | .error _ => some (some d, node "err" [.atom "authorityReuse"])
      | .ok (a, none) => some (some { d with a := a }, .atom "none")
      | .ok (a, some tc) => some (some { d with a := a }, printTC tc)
  | .list [.atom "agg-cleanup", r] =>
    match d with
    | none => some (d, .atom "no-agg")
    | some d => some (some { d with a := d.a.cleanup (natD r) }, .atom "ok")
  | _ => none

end HS.Driver
