import HotstuffModel.Driver.Sexp
import HotstuffModel.Model.Timer
/-
Driver for the model of `consensus/src/timer.rs` (`HS.Timer`; C06).  Lines (times in ms):
  (tm new DURATION NOW)   -> (ok)
  (tm reset NOW)          -> (ok)
  (tm fired NOW)          -> (fired 0|1)
-/
namespace HS.Driver
open Sexp

def stepTM (st : HS.Timer.T) (e : Sexp) : Option (HS.Timer.T × Sexp) :=
  match e with
  | .list [.atom "tm", .atom "new", d, now] => some (HS.Timer.new (natD d) (natD now), node "ok" [])
  | .list [.atom "tm", .atom "reset", now] => some (HS.Timer.reset st (natD now), node "ok" [])
  | .list [.atom "tm", .atom "fired", now] => some (st, node "fired" [ofNat (if HS.Timer.fired st (natD now) then 1 else 0)])
  | _ => none

end HS.Driver
