import HotstuffModel.Driver.Sexp
import HotstuffModel.Model.Store
/-
Driver for the Store model (C16).  Lines (keys and values are opaque atoms, the harness sends
`x<hex>`):
  (store reset)            -> (ok)
  (store write K V)        -> (replies (notified W V) ...)
  (store read K)           -> (replies (read none)) | (replies (read V))
  (store notify K W)       -> (replies) | (replies (notified W V))
  (store reopen)           -> (replies)
  (store pending K)        -> (pending W ...)          -- obligations of K (diagnostics)
-/
namespace HS.Driver
open Sexp

abbrev StoreState := HS.Store.State String String

def replySexp : HS.Store.Reply String → Sexp
  | .readReply none => node "read" [atom "none"]
  | .readReply (some v) => node "read" [atom v]
  | .notified w v => node "notified" [ofNat w, atom v]

def stepStore (s : StoreState) (e : Sexp) : Option (StoreState × Sexp) :=
  let go (c : HS.Store.Cmd String String) : Option (StoreState × Sexp) :=
    let (s', rs) := HS.Store.step s c
    some (s', node "replies" (rs.map replySexp))
  match e with
  | .list [.atom "store", .atom "reset"] => some ({}, node "ok" [])
  | .list [.atom "store", .atom "write", .atom k, .atom v] => go (.write k v)
  | .list [.atom "store", .atom "read", .atom k] => go (.read k)
  | .list [.atom "store", .atom "notify", .atom k, w] => go (.notifyRead k (natD w))
  | .list [.atom "store", .atom "reopen"] => go .reopen
  | .list [.atom "store", .atom "pending", .atom k] =>
    some (s, node "pending" ((HS.Store.obligations s k).map ofNat))
  | _ => none

end HS.Driver
