import HotstuffModel.Generated.Guards
/-
Model of `consensus/src/timer.rs` (C06, C10): a deadline; `reset` moves it to `now + duration`
(`Gen.timerDeadline`, regenerated from the source); the future is ready from the deadline on.  `Core`
resets the timer when it starts, when it enters a round (`advance_round`) and after each local
timeout (`local_timeout_round`) — shape-checked by the translator.  Times are milliseconds.
-/
namespace HS.Timer

structure T where
  duration : Nat
  deadline : Nat
deriving Repr, DecidableEq

/-- `Timer::new(duration)` at time `now`: `sleep(duration)`. -/
def new (duration now : Nat) : T := ⟨duration, now + duration⟩

/-- `Timer::reset()` at time `now`. -/
def reset (t : T) (now : Nat) : T := { t with deadline := Gen.timerDeadline now t.duration }

/-- Is the future ready at time `now`? -/
def fired (t : T) (now : Nat) : Bool := decide (t.deadline ≤ now)

/-- A history of resets, oldest first. -/
def resets (t : T) : List Nat → T
  | [] => t
  | now :: rest => resets (reset t now) rest

end HS.Timer
