import HotstuffModel.Model.Verify
/-
consensus/src/aggregator.rs: `Aggregator`, `QCMaker`, `TCMaker`.
The Rust maps `HashMap<Round, HashMap<Digest, QCMaker>>` (inner key = digest of (hash, round)) and
`HashMap<Round, TCMaker>` become association lists keyed by `(round, hash)` and `round`.
-/
namespace HS

inductive AErr where
  | authorityReuse
  deriving DecidableEq, Repr

structure QCMaker where
  weight : Nat := 0
  votes : List (Nat × Sig) := []
  used : List Nat := []
  deriving Repr, Inhabited, DecidableEq

structure TCMaker where
  weight : Nat := 0
  votes : List (Nat × Sig × Nat) := []
  used : List Nat := []
  deriving Repr, Inhabited, DecidableEq

/-- `QCMaker::append`. -/
def QCMaker.append (m : QCMaker) (c : Committee) (v : Vote) : Except AErr (QCMaker × Option QC) :=
  if m.used.contains v.author then .error .authorityReuse
  else
    let votes := m.votes ++ [(v.author, v.sig)]
    let weight := m.weight + c.stake v.author
    let used := v.author :: m.used
    if Gen.qcMakerQuorum weight c.quorum then
      .ok ({ weight := 0, votes := votes, used := used },
           some { hash := v.hash, round := v.round, votes := votes })
    else .ok ({ weight := weight, votes := votes, used := used }, none)

/-- `TCMaker::append`. -/
def TCMaker.append (m : TCMaker) (c : Committee) (t : Timeout) : Except AErr (TCMaker × Option TC) :=
  if m.used.contains t.author then .error .authorityReuse
  else
    let votes := m.votes ++ [(t.author, t.sig, t.highQC.round)]
    let weight := m.weight + c.stake t.author
    let used := t.author :: m.used
    if Gen.tcMakerQuorum weight c.quorum then
      .ok ({ weight := 0, votes := votes, used := used }, some { round := t.round, votes := votes })
    else .ok ({ weight := weight, votes := votes, used := used }, none)

structure Aggregator where
  votes : List ((Nat × Digest) × QCMaker) := []
  timeouts : List (Nat × TCMaker) := []
  deriving Repr, Inhabited

namespace Aggregator

def getQ (a : Aggregator) (k : Nat × Digest) : QCMaker := (a.votes.lookup k).getD {}
def getT (a : Aggregator) (r : Nat) : TCMaker := (a.timeouts.lookup r).getD {}

def setQ (a : Aggregator) (k : Nat × Digest) (m : QCMaker) : Aggregator :=
  { a with votes := (k, m) :: a.votes.filter (fun e => e.1 != k) }
def setT (a : Aggregator) (r : Nat) (m : TCMaker) : Aggregator :=
  { a with timeouts := (r, m) :: a.timeouts.filter (fun e => e.1 != r) }

/-- `Aggregator::add_vote`. -/
def addVote (a : Aggregator) (c : Committee) (v : Vote) : Except AErr (Aggregator × Option QC) :=
  match (a.getQ (v.round, v.hash)).append c v with
  | .error e => .error e
  | .ok (m, r) => .ok (a.setQ (v.round, v.hash) m, r)

/-- `Aggregator::add_timeout`. -/
def addTimeout (a : Aggregator) (c : Committee) (t : Timeout) : Except AErr (Aggregator × Option TC) :=
  match (a.getT t.round).append c t with
  | .error e => .error e
  | .ok (m, r) => .ok (a.setT t.round m, r)

/-- `Aggregator::cleanup`: keep the entries of rounds `≥ round`. -/
def cleanup (a : Aggregator) (round : Nat) : Aggregator :=
  { votes := a.votes.filter (fun e => e.1.1 ≥ round),
    timeouts := a.timeouts.filter (fun e => e.1 ≥ round) }

end Aggregator
end HS
