/-
Model of `store::Store` (/repo/store/src/lib.rs): one actor task that serialises all commands
arriving on an mpsc channel.

* `kv`   — the RocksDB contents as an association list (one entry per key; `get` = `db.get`,
           `put` = `db.put`).  RocksDB is *modelled* as a durable map (DESIGN §6).
* `obl`  — the `obligations : HashMap<Key, VecDeque<oneshot::Sender>>` as one flat list of
           `(key, waiter)` in arrival order; `obligations s k` is the per-key queue.
           A waiter id stands for the `oneshot::Sender` created by one `notify_read` call.

A command sequence is the order in which the actor dequeues the commands.  Every interleaving of
concurrent handles is such a sequence (mpsc FIFO per handle is assumed).

`reopen` = every handle dropped (the actor leaves its loop, the DB is closed) followed by
`Store::new` on the same path.  A pending `notify_read` future borrows its handle mutably, so all
handles can only be dropped after every pending `notify_read` future has been dropped by its
caller: the waiters of the old actor are *cancelled by their owners*, they are never answered
(and the `expect("Failed to receive reply …")` in `notify_read` is unreachable short of a runtime
shutdown).  The new actor starts with an empty obligations map and the same `kv`.

A caller may also abandon ONE pending `notify_read` (its future is dropped by a losing `select!`
branch, as in the synchronizers).  The actor is not told: the waiter stays in `obl`, the later
`send` to it fails and the failure is ignored (`let _ = s.send(..)`), and the loop goes on to the
next waiter.  So cancellation is not a command of the model; a `notified w v` reply addressed to
an abandoned waiter is a send nobody observes (the store engine's `cancel w` op drops the real
future and removes exactly those replies from the expected output).

`db.put` / `db.get` errors are ignored by the code (`let _ = db.put`) and are not modelled.
-/
namespace HS.Store

inductive Cmd (κ ν : Type) where
  | write (k : κ) (v : ν)
  | read (k : κ)
  | notifyRead (k : κ) (w : Nat)
  | reopen
  deriving Repr, DecidableEq

inductive Reply (ν : Type) where
  /-- the answer to a `read` (sent in the same step) -/
  | readReply (v : Option ν)
  /-- the oneshot of waiter `w` is completed with `v` -/
  | notified (w : Nat) (v : ν)
  deriving Repr, DecidableEq

structure State (κ ν : Type) where
  kv : List (κ × ν) := []
  obl : List (κ × Nat) := []
  deriving Repr

variable {κ ν : Type} [DecidableEq κ]

def init : State κ ν := {}

/-- `db.get(&key)` -/
def get (s : State κ ν) (k : κ) : Option ν := s.kv.lookup k

/-- `db.put(&key, &value)` on the association list: the old entry is replaced. -/
def put (kv : List (κ × ν)) (k : κ) (v : ν) : List (κ × ν) :=
  (k, v) :: kv.filter (fun p => !(p.1 == k))

/-- `obligations.get(&k)`: the waiters of `k`, oldest first. -/
def obligations (s : State κ ν) (k : κ) : List Nat :=
  (s.obl.filter (fun p => p.1 == k)).map Prod.snd

/-- One iteration of the actor loop. -/
def step (s : State κ ν) : Cmd κ ν → State κ ν × List (Reply ν)
  | .write k v =>
    -- db.put; obligations.remove(&key) and every removed sender gets the value just written
    ({ kv := put s.kv k v, obl := s.obl.filter (fun p => !(p.1 == k)) },
     (obligations s k).map (fun w => Reply.notified w v))
  | .read k => (s, [Reply.readReply (get s k)])
  | .notifyRead k w =>
    match get s k with
    | none => ({ s with obl := s.obl ++ [(k, w)] }, [])
    | some v => (s, [Reply.notified w v])
  | .reopen => ({ s with obl := [] }, [])

/-- State after a command sequence. -/
def run (s : State κ ν) : List (Cmd κ ν) → State κ ν
  | [] => s
  | c :: cs => run (step s c).1 cs

/-- The replies of every step of a command sequence, one list per step. -/
def trace (s : State κ ν) : List (Cmd κ ν) → List (List (Reply ν))
  | [] => []
  | c :: cs => (step s c).2 :: trace (step s c).1 cs

/-- The values delivered to waiter `w` in one step's replies. -/
def got (w : Nat) (rs : List (Reply ν)) : List ν :=
  rs.filterMap (fun r => match r with
    | .notified w' v => if w' = w then some v else none
    | .readReply _ => none)

/-- Effect of one command on "the value of the last write to `k` so far". -/
def upd (k : κ) (acc : Option ν) : Cmd κ ν → Option ν
  | .write k' v => if k' = k then some v else acc
  | _ => acc

/-- Specification function: the value of the last `write k _` in `cs`, starting from `acc`
(independent of the store state: a plain scan of the command sequence). -/
def lastWriteFrom (acc : Option ν) (k : κ) : List (Cmd κ ν) → Option ν
  | [] => acc
  | c :: cs => lastWriteFrom (upd k acc c) k cs

def lastWrite (k : κ) (cs : List (Cmd κ ν)) : Option ν := lastWriteFrom none k cs

/-- `c` is a write to key `k`. -/
def Cmd.writes (k : κ) : Cmd κ ν → Bool
  | .write k' _ => k' == k
  | _ => false

/-- `c` is a `notifyRead` carrying waiter id `w`. -/
def Cmd.usesWaiter (w : Nat) : Cmd κ ν → Bool
  | .notifyRead _ w' => w' == w
  | _ => false

def Cmd.isReopen : Cmd κ ν → Bool
  | .reopen => true
  | _ => false

end HS.Store
