import HotstuffModel.Model.Committee
import HotstuffModel.Generated.Guards
/-
Model of `mempool::quorum_waiter::QuorumWaiter` (/repo/mempool/src/quorum_waiter.rs).

The task receives `QuorumWaiterMessage { batch, handlers }` on an mpsc channel and serves ONE
message at a time: it turns the handlers into a `FuturesUnordered` of `waiter(handler, stake)`,
starts from `total_stake = self.stake`, and for each completed waiter adds its stake and, if
`total_stake >= quorum_threshold()`, sends the batch to the processor and `break`s.  If the
stream runs dry first (every handler completed, threshold not reached — in particular when the
handler list is empty) the batch is dropped silently.  Only then is the next message taken.

* A handler *completes* when its oneshot is answered (ACK) **or when its sender is dropped**:
  `let _ = wait_for.await` ignores the `RecvError`.  The model therefore has one event
  `complete id idx acked` whose `acked` flag has no influence on `step` (faithful to the code);
  the flag only exists so that theorems can talk about it.
* The threshold is tested only after a completion.  A node whose own stake already is a quorum
  still waits for the first completion, and never forwards when the handler list is empty
  (single-authority committee).  Modelled as is.
* Handlers of a message that is still queued may complete (the oneshot keeps the value); when the
  message is taken, all completed handlers are ready at once and `FuturesUnordered` yields them in
  push order on the first poll, i.e. in handler-list order; the loop still breaks at the first
  crossing.  The forward/no-forward outcome does not depend on that order (the total is monotone).
* After the inner loop `wait_for_quorum` is dropped: `pending_counter >= DISSEMINATION_QUEUE_MAX`
  is false (`0 >= 10_000`), so the "extra dissemination" branch never runs and the remaining
  handlers are cancelled at once.  Completions for finished batches are ignored.
* `tx_batch.send(..).await.expect(..)` panics only if the processor is gone (internal channel).

Handlers are identified by their position `idx` in the message's handler list, not by name, because
the code does not care whether names repeat.  `BatchMaker::seal` builds the list from
`Committee::broadcast_addresses(myself)` (HashMap keys minus self), so names are distinct members
other than self — a hypothesis of the theorems that need it.
-/
namespace HS.QW

/-- One cancel handler of a batch. `done` = its oneshot has completed (ACK or sender dropped). -/
structure H where
  idx : Nat
  name : Nat
  stake : Nat
  done : Bool
  deriving Repr, DecidableEq

/-- A queued `QuorumWaiterMessage`. -/
structure B where
  id : Nat
  hs : List H
  deriving Repr

/-- The message being served: `total` is the local `total_stake`. -/
structure Cur where
  id : Nat
  total : Nat
  hs : List H
  deriving Repr

inductive Ev where
  /-- `QuorumWaiterMessage` with batch `id` and the handler names, in order -/
  | batch (id : Nat) (names : List Nat)
  /-- handler `idx` of batch `id` completes: `acked = true` an ACK arrived, `false` the sender was dropped -/
  | complete (id : Nat) (idx : Nat) (acked : Bool)
  deriving Repr, DecidableEq

inductive Out where
  /-- `tx_batch.send(batch)`; `ackers` (ghost) = names of the handlers counted so far -/
  | forward (id : Nat) (ackers : List Nat)
  /-- (ghost, not observable) every handler completed without reaching the threshold -/
  | gaveUp (id : Nat)
  deriving Repr, DecidableEq

/-- Constants of the task: own stake, `committee.quorum_threshold()`, `committee.stake(·)`. -/
structure Cfg where
  own : Nat
  q : Nat
  stakeOf : Nat → Nat

def Cfg.ofCommittee (c : Committee) (own : Nat) : Cfg := ⟨own, c.quorumMempool, c.stakeMempool⟩

structure State where
  cur : Option Cur := none
  queue : List B := []
  deriving Repr

def init : State := {}

def mkHandlers (stakeOf : Nat → Nat) (names : List Nat) : List H :=
  names.zipIdx.map (fun p => ⟨p.2, p.1, stakeOf p.1, false⟩)

/-- Names of the completed handlers, in list order. -/
def ackers (hs : List H) : List Nat := (hs.filter (·.done)).map (·.name)

/-- Stake of the completed handlers. -/
def doneStake (hs : List H) : Nat := ((hs.filter (·.done)).map (·.stake)).sum

/-- Complete the first not-yet-completed handler with index `i`; returns it and the new list. -/
def mark (i : Nat) : List H → Option (H × List H)
  | [] => none
  | h :: t =>
    if h.idx = i ∧ h.done = false then some (h, { h with done := true } :: t)
    else match mark i t with
      | some (x, t') => some (x, h :: t')
      | none => none

/-- Completion of handler `i` of the queued batch `id` (the oneshot keeps the result). -/
def markQueue (id i : Nat) : List B → List B
  | [] => []
  | b :: bs =>
    if b.id = id then
      match mark i b.hs with
      | some (_, hs') => { b with hs := hs' } :: bs
      | none => b :: bs
    else b :: markQueue id i bs

/-- Count completed handlers one after the other, starting from `total`; the counted prefix at
the first point where the threshold is reached, if any. -/
def crossing (q : Nat) : Nat → List H → Option (List H)
  | _, [] => none
  | total, h :: rest =>
    if Gen.waiterQuorum (total + h.stake) q then some [h]
    else (crossing q (total + h.stake) rest).map (h :: ·)

/-- Take a message from the channel: its already completed handlers are counted in order. -/
def serve (own q : Nat) (b : B) : Option Cur × List Out :=
  match crossing q own (b.hs.filter (·.done)) with
  | some p => (none, [.forward b.id (p.map (·.name))])
  | none =>
    if b.hs.all (·.done) then (none, [.gaveUp b.id])
    else (some ⟨b.id, own + doneStake b.hs, b.hs⟩, [])

/-- Serve queued messages until one has to wait. -/
def advance (own q : Nat) : List B → Option Cur × List B × List Out
  | [] => (none, [], [])
  | b :: bs =>
    match serve own q b with
    | (some c, outs) => (some c, bs, outs)
    | (none, outs) =>
      let r := advance own q bs
      (r.1, r.2.1, outs ++ r.2.2)

def step (cfg : Cfg) (s : State) : Ev → State × List Out
  | .batch id names =>
    let b : B := ⟨id, mkHandlers cfg.stakeOf names⟩
    match s.cur with
    | some _ => ({ s with queue := s.queue ++ [b] }, [])
    | none =>
      let r := advance cfg.own cfg.q (s.queue ++ [b])
      (⟨r.1, r.2.1⟩, r.2.2)
  | .complete id i _ =>
    match s.cur with
    | some c =>
      if c.id = id then
        match mark i c.hs with
        | none => (s, [])
        | some (h, hs') =>
          if Gen.waiterQuorum (c.total + h.stake) cfg.q then
            let r := advance cfg.own cfg.q s.queue
            (⟨r.1, r.2.1⟩, .forward id (ackers hs') :: r.2.2)
          else if hs'.all (·.done) then
            let r := advance cfg.own cfg.q s.queue
            (⟨r.1, r.2.1⟩, .gaveUp id :: r.2.2)
          else (⟨some ⟨id, c.total + h.stake, hs'⟩, s.queue⟩, [])
      else ({ s with queue := markQueue id i s.queue }, [])
    | none => ({ s with queue := markQueue id i s.queue }, [])

def run (cfg : Cfg) (s : State) : List Ev → State
  | [] => s
  | e :: es => run cfg (step cfg s e).1 es

def trace (cfg : Cfg) (s : State) : List Ev → List (List Out)
  | [] => []
  | e :: es => (step cfg s e).2 :: trace cfg (step cfg s e).1 es

/-- All outputs of a run, flattened, in order. -/
def outputs (cfg : Cfg) (s : State) (es : List Ev) : List Out := (trace cfg s es).flatten

/-- Batch ids in arrival order. -/
def arrivals : List Ev → List Nat
  | [] => []
  | .batch id _ :: es => id :: arrivals es
  | _ :: es => arrivals es

/-- Ids of finished batches (forwarded or given up), in order. -/
def Out.id : Out → Nat
  | .forward id _ => id
  | .gaveUp id => id

def Out.isForward : Out → Bool
  | .forward _ _ => true
  | .gaveUp _ => false

end HS.QW
