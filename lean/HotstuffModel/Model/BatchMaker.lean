import HotstuffModel.Generated.Switches
import HotstuffModel.Generated.Guards
/-
Model of `mempool::batch_maker::BatchMaker` (/repo/mempool/src/batch_maker.rs), of the batch path
of `mempool::processor::Processor` (processor.rs) and of `MempoolReceiverHandler::dispatch`
(mempool.rs), plus the bincode layout of `MempoolMessage::Batch`.

A transaction is a byte string (`List Nat`, every element a byte; nothing below depends on the
elements being < 256).  `cur` is `current_batch` in arrival order, `size` is
`current_batch_size`.

Events of the untimed model: `tx bytes` (the `rx_transaction.recv()` branch) and `timer` (the
`&mut timer` branch).  The seal rule is the code's: after the push, `size >= batch_size` seals
(and resets the timer); the timer seals iff the batch is non-empty (and is re-armed either way).

`benchmark` models `#[cfg(feature = "benchmark")]`: in that build `seal` first scans the batch
for sample transactions with `.filter(|tx| tx[0] == 0u8 && tx.len() > 8)`, which indexes byte 0 of
EVERY transaction of the batch and therefore panics on an empty one (defect F2; the task dies and
every later transaction is lost).  `lenFirst` is the one-line switch for the repaired filter
(`tx.len() > 8 && tx[0] == 0u8`): with it the scan cannot panic.  `codeLenFirst` says which of the
two the current /repo has.  The sample ids themselves only feed log lines and are not modelled.

`Batch::with_capacity(batch_size * 2)` (overflow / allocation failure for absurd `batch_size`),
the broadcast through `ReliableSender` and the `expect("Failed to deliver batch")` on the
internal channel are not modelled here (C14 / internal channel).
-/
namespace HS.BM

/-- The filter in `seal` of the current /repo tests `tx[0]` before the length.  Flip to `true`
when the `fix:` commit swaps the two tests. -/
def codeLenFirst : Bool := Gen.batchSampleLenFirst

instance {ε α : Type} [DecidableEq ε] [DecidableEq α] : DecidableEq (Except ε α)
  | .ok a, .ok b => if h : a = b then isTrue (by rw [h]) else isFalse (by intro e; cases e; exact h rfl)
  | .error a, .error b => if h : a = b then isTrue (by rw [h]) else isFalse (by intro e; cases e; exact h rfl)
  | .ok _, .error _ => isFalse (by intro e; cases e)
  | .error _, .ok _ => isFalse (by intro e; cases e)

inductive PanicSite where
  /-- `tx[0]` on an empty transaction, batch_maker.rs `seal` (benchmark build) -/
  | sealSampleScanIndex
  deriving Repr, DecidableEq

structure Cfg where
  batchSize : Nat
  benchmark : Bool := false
  lenFirst : Bool := codeLenFirst
  deriving Repr

structure State where
  cur : List (List Nat) := []
  size : Nat := 0
  deriving Repr, DecidableEq

inductive Ev where
  | tx (bytes : List Nat)
  | timer
  deriving Repr, DecidableEq

def init : State := {}

/-- Does the benchmark build's sample scan hit `tx[0]` of an empty transaction? -/
def scanPanics (cfg : Cfg) (batch : List (List Nat)) : Bool :=
  cfg.benchmark && !cfg.lenFirst && batch.any (fun tx => tx.isEmpty)

/-- `seal`: drain the whole open batch into one sealed batch. -/
def sealBatch (cfg : Cfg) (s : State) : Except PanicSite (State × List (List (List Nat))) :=
  if scanPanics cfg s.cur then .error .sealSampleScanIndex
  else .ok ({ cur := [], size := 0 }, [s.cur])

/-- One iteration of the `select!` loop.  Output: the batches sealed in this step. -/
def step (cfg : Cfg) (s : State) : Ev → Except PanicSite (State × List (List (List Nat)))
  | .tx t =>
    let s' : State := { cur := s.cur ++ [t], size := s.size + t.length }
    if Gen.sealOnSize s'.size cfg.batchSize then sealBatch cfg s' else .ok (s', [])
  | .timer =>
    if Gen.sealOnTimer s.cur.isEmpty s.size then sealBatch cfg s else .ok (s, [])

/-- Run an event list; the sealed batches in order.  A panic ends the task. -/
def run (cfg : Cfg) : State → List Ev → Except PanicSite (State × List (List (List Nat)))
  | s, [] => .ok (s, [])
  | s, e :: es =>
    match step cfg s e with
    | .error p => .error p
    | .ok (s', outs) =>
      match run cfg s' es with
      | .error p => .error p
      | .ok (s'', bs) => .ok (s'', outs ++ bs)

/-- The transactions accepted from clients, in arrival order. -/
def accepted : List Ev → List (List Nat)
  | [] => []
  | .tx t :: es => t :: accepted es
  | .timer :: es => accepted es

/-! ### Timed wrapper (used by the driver; `deadline` is the instant the `Sleep` is armed for) -/

structure TState where
  s : State := {}
  deadline : Nat := 0
  dead : Bool := false
  deriving Repr

inductive TOut where
  | sealed (batch : List (List Nat))
  | panic (p : PanicSite)
  deriving Repr

/-- The task takes a transaction at time `now`; a size-triggered seal re-arms the timer. -/
def txAt (cfg : Cfg) (delay : Nat) (t : TState) (now : Nat) (bytes : List Nat) : TState × List TOut :=
  if t.dead then (t, []) else
  match step cfg t.s (.tx bytes) with
  | .error p => ({ t with dead := true }, [.panic p])
  | .ok (s', outs) =>
    ({ t with s := s', deadline := if outs.isEmpty then t.deadline else now + delay }, outs.map .sealed)

/-- The clock reads `now`; if the timer is due it fires (once) and is re-armed to `now + delay`. -/
def clockAt (cfg : Cfg) (delay : Nat) (t : TState) (now : Nat) : TState × List TOut :=
  if t.dead then (t, []) else
  if now < t.deadline then (t, []) else
  match step cfg t.s .timer with
  | .error p => ({ t with dead := true }, [.panic p])
  | .ok (s', outs) => ({ t with s := s', deadline := now + delay }, outs.map .sealed)

/-! ### bincode of `MempoolMessage::Batch(batch)`:  le32 0 ‖ le64 count ‖ (le64 len ‖ bytes)* -/

def le64 (n : Nat) : List Nat :=
  [n % 256, n / 256 % 256, n / 65536 % 256, n / 16777216 % 256, n / 4294967296 % 256,
   n / 1099511627776 % 256, n / 281474976710656 % 256, n / 72057594037927936 % 256]

def unle64 : List Nat → Option (Nat × List Nat)
  | b0 :: b1 :: b2 :: b3 :: b4 :: b5 :: b6 :: b7 :: rest =>
    some (b0 + 256 * b1 + 65536 * b2 + 16777216 * b3 + 4294967296 * b4 + 1099511627776 * b5
      + 281474976710656 * b6 + 72057594037927936 * b7, rest)
  | _ => none

def encodeTxs : List (List Nat) → List Nat
  | [] => []
  | t :: ts => le64 t.length ++ t ++ encodeTxs ts

/-- `bincode::serialize(&MempoolMessage::Batch(batch))` -/
def encodeBatch (batch : List (List Nat)) : List Nat :=
  [0, 0, 0, 0] ++ le64 batch.length ++ encodeTxs batch

def decodeTxs : Nat → List Nat → Option (List (List Nat) × List Nat)
  | 0, bs => some ([], bs)
  | n + 1, bs =>
    match unle64 bs with
    | none => none
    | some (len, rest) =>
      if rest.length < len then none
      else match decodeTxs n (rest.drop len) with
        | none => none
        | some (ts, r) => some (rest.take len :: ts, r)

/-- Decoder for the `Batch` variant; returns the batch and the unread rest
(`bincode::deserialize` allows trailing bytes). -/
def decodeBatchPrefix : List Nat → Option (List (List Nat) × List Nat)
  | 0 :: 0 :: 0 :: 0 :: r =>
    match unle64 r with
    | none => none
    | some (n, r') => decodeTxs n r'
  | _ => none

/-- Strict decoder: the whole input is one batch message. -/
def decodeBatch (bytes : List Nat) : Option (List (List Nat)) :=
  match decodeBatchPrefix bytes with
  | some (b, []) => some b
  | _ => none

/-! ### Content addressing -/

/-- Symbolic SHA-512 truncated to 32 bytes: a digest *is* its pre-image, so collision freedom is
constructor injectivity — the hash assumption of DESIGN §3.4 made explicit. -/
structure Digest where
  preimage : List Nat
  deriving Repr, DecidableEq

def digestOf (bytes : List Nat) : Digest := ⟨bytes⟩

/-- `Processor`: `digest = H(batch)`, `store.write(digest, batch)`, `tx_digest.send(digest)`.
Returns (store key, stored value, digest announced to consensus). -/
def processor (bytes : List Nat) : Digest × List Nat × Digest := (digestOf bytes, bytes, digestOf bytes)

/-- `MempoolReceiverHandler::dispatch` for a frame that deserialises to `MempoolMessage::Batch`:
what goes to the processor is `serialized.to_vec()`, the received bytes themselves (not a
re-serialisation).  `none`: not a batch message (other variant or error), nothing is stored. -/
def receiverHandler (frame : List Nat) : Option (List Nat) :=
  match decodeBatchPrefix frame with
  | some _ => some frame
  | none => none

end HS.BM
