import HotstuffModel.Model.Base64
/-!
# bincode 1.3 encoding of the wire types (`bincode::serialize` / `bincode::deserialize`)

Default options of the two free functions: fixed-width little-endian integers, `u64` sequence lengths,
`u32` enum variant index, `Option` = one tag byte 0/1, fixed-size arrays and tuples and struct fields
just concatenated, `String` = `u64` length + UTF-8 bytes, no size limit, **trailing bytes allowed**.

Wire types (`consensus/src/messages.rs`, `consensus/src/consensus.rs`, `mempool/src/mempool.rs`):
`Digest([u8;32])`, `PublicKey` (serialised as its base64 `String`, 44 characters), `Signature`
(two `[u8;32]`), `QC`, `TC`, `Block`, `Vote`, `Timeout`, `ConsensusMessage`, `MempoolMessage`.

The encoders take fields of any length (the Rust types fix the lengths; well-formedness predicates
`WF` say so).  The decoders are total functions from *every* byte string to `Res`; the only place the
Rust can panic is the key slice (see `decodeKey`), selected by `checkedSlice`.

UTF-8: bincode rejects a `String` that is not valid UTF-8 before `decode_base64` sees it.  The model
does not check UTF-8 separately: a string that is not valid UTF-8 contains a byte ≥ 0x80, which
`Base64.decode` rejects as well (with an error, before the slice) — `Base64.decode_ascii` in
`Proofs/Base64.lean`.
-/
namespace HS.Wire

structure Sig where
  p1 : List UInt8
  p2 : List UInt8
  deriving DecidableEq, Repr

structure QC where
  hash : List UInt8
  round : Nat
  votes : List (List UInt8 × Sig)
  deriving DecidableEq, Repr

structure TC where
  round : Nat
  votes : List (List UInt8 × Sig × Nat)
  deriving DecidableEq, Repr

structure Block where
  qc : QC
  tc : Option TC
  author : List UInt8
  round : Nat
  payload : List (List UInt8)
  signature : Sig
  deriving DecidableEq, Repr

structure Vote where
  hash : List UInt8
  round : Nat
  author : List UInt8
  signature : Sig
  deriving DecidableEq, Repr

structure Timeout where
  highQc : QC
  round : Nat
  author : List UInt8
  signature : Sig
  deriving DecidableEq, Repr

inductive CMsg where
  | propose (b : Block)
  | vote (v : Vote)
  | timeout (t : Timeout)
  | tc (t : TC)
  | syncRequest (missing : List UInt8) (origin : List UInt8)
  deriving DecidableEq, Repr

inductive MMsg where
  | batch (txs : List (List UInt8))
  | batchRequest (missing : List (List UInt8)) (origin : List UInt8)
  deriving DecidableEq, Repr

/-! ## Well-formedness: what the Rust types guarantee about a value -/

def Sig.WF (s : Sig) : Prop := s.p1.length = 32 ∧ s.p2.length = 32
def QC.WF (q : QC) : Prop :=
  q.hash.length = 32 ∧ q.round < 2 ^ 64 ∧ q.votes.length < 2 ^ 64 ∧
  ∀ v ∈ q.votes, v.1.length = 32 ∧ v.2.WF
def TC.WF (t : TC) : Prop :=
  t.round < 2 ^ 64 ∧ t.votes.length < 2 ^ 64 ∧
  ∀ v ∈ t.votes, v.1.length = 32 ∧ v.2.1.WF ∧ v.2.2 < 2 ^ 64
def Block.WF (b : Block) : Prop :=
  b.qc.WF ∧ (∀ t, b.tc = some t → t.WF) ∧ b.author.length = 32 ∧ b.round < 2 ^ 64 ∧
  b.payload.length < 2 ^ 64 ∧ (∀ d ∈ b.payload, d.length = 32) ∧ b.signature.WF
def Vote.WF (v : Vote) : Prop :=
  v.hash.length = 32 ∧ v.round < 2 ^ 64 ∧ v.author.length = 32 ∧ v.signature.WF
def Timeout.WF (t : Timeout) : Prop :=
  t.highQc.WF ∧ t.round < 2 ^ 64 ∧ t.author.length = 32 ∧ t.signature.WF
def CMsg.WF : CMsg → Prop
  | .propose b => b.WF
  | .vote v => v.WF
  | .timeout t => t.WF
  | .tc t => t.WF
  | .syncRequest d k => d.length = 32 ∧ k.length = 32
def MMsg.WF : MMsg → Prop
  | .batch txs => txs.length < 2 ^ 64 ∧ ∀ tx ∈ txs, tx.length < 2 ^ 64
  | .batchRequest ds k => ds.length < 2 ^ 64 ∧ (∀ d ∈ ds, d.length = 32) ∧ k.length = 32

instance (s : Sig) : Decidable s.WF := by unfold Sig.WF; infer_instance
instance (q : QC) : Decidable q.WF := by unfold QC.WF; infer_instance
instance (t : TC) : Decidable t.WF := by unfold TC.WF; infer_instance
instance (b : Block) : Decidable b.WF := by
  unfold Block.WF
  have : Decidable (∀ t, b.tc = some t → t.WF) :=
    match h : b.tc with
    | none => isTrue (fun t ht => by cases ht)
    | some t =>
      if hw : t.WF then isTrue (fun t' ht => by cases ht; exact hw)
      else isFalse (fun hf => hw (hf t rfl))
  infer_instance
instance (v : Vote) : Decidable v.WF := by unfold Vote.WF; infer_instance
instance (t : Timeout) : Decidable t.WF := by unfold Timeout.WF; infer_instance
instance (m : CMsg) : Decidable m.WF := by cases m <;> (unfold CMsg.WF; infer_instance)
instance (m : MMsg) : Decidable m.WF := by cases m <;> (unfold MMsg.WF; infer_instance)

/-! ## Encoders (`bincode::serialize`) -/

/-- `Vec<u8>` / `String`. -/
def encByteVec (s : List UInt8) : List UInt8 := le64 s.length ++ s
/-- `Vec<T>`. -/
def encVec {α : Type} (f : α → List UInt8) (xs : List α) : List UInt8 :=
  le64 xs.length ++ (xs.map f).flatten
/-- `Option<T>`. -/
def encOption {α : Type} (f : α → List UInt8) : Option α → List UInt8
  | none => [0]
  | some x => 1 :: f x
/-- `PublicKey`: `serialize_str(&self.encode_base64())`. -/
def encPk (k : List UInt8) : List UInt8 := encByteVec (encodeKey k)
def encSig (s : Sig) : List UInt8 := s.p1 ++ s.p2
def encQCVote (v : List UInt8 × Sig) : List UInt8 := encPk v.1 ++ encSig v.2
def encTCVote (v : List UInt8 × Sig × Nat) : List UInt8 := encPk v.1 ++ encSig v.2.1 ++ le64 v.2.2
def encQC (q : QC) : List UInt8 := q.hash ++ le64 q.round ++ encVec encQCVote q.votes
def encTC (t : TC) : List UInt8 := le64 t.round ++ encVec encTCVote t.votes
def encBlock (b : Block) : List UInt8 :=
  encQC b.qc ++ encOption encTC b.tc ++ encPk b.author ++ le64 b.round
    ++ encVec id b.payload ++ encSig b.signature
def encVote (v : Vote) : List UInt8 := v.hash ++ le64 v.round ++ encPk v.author ++ encSig v.signature
def encTimeout (t : Timeout) : List UInt8 :=
  encQC t.highQc ++ le64 t.round ++ encPk t.author ++ encSig t.signature
def encCMsg : CMsg → List UInt8
  | .propose b => le32 0 ++ encBlock b
  | .vote v => le32 1 ++ encVote v
  | .timeout t => le32 2 ++ encTimeout t
  | .tc t => le32 3 ++ encTC t
  | .syncRequest d k => le32 4 ++ d ++ encPk k
def encMMsg : MMsg → List UInt8
  | .batch txs => le32 0 ++ encVec encByteVec txs
  | .batchRequest ds k => le32 1 ++ encVec id ds ++ encPk k

/-! ## Decoders (`bincode::deserialize`), parameterised by `checkedSlice` (see `decodeKey`) -/

def decDigest : Dec (List UInt8) := Dec.take 32
/-- `String::deserialize` then `PublicKey::decode_base64`. -/
def decPk (c : Bool) : Dec (List UInt8) := do
  let s ← Dec.byteVec
  Dec.lift (decodePublicKey c s)
def decSig : Dec Sig := do
  let a ← Dec.take 32
  let b ← Dec.take 32
  return ⟨a, b⟩
def decQCVote (c : Bool) : Dec (List UInt8 × Sig) := do
  let k ← decPk c
  let s ← decSig
  return (k, s)
def decTCVote (c : Bool) : Dec (List UInt8 × Sig × Nat) := do
  let k ← decPk c
  let s ← decSig
  let r ← Dec.u64
  return (k, s, r)
def decQC (c : Bool) : Dec QC := do
  let h ← decDigest
  let r ← Dec.u64
  let vs ← Dec.vec (decQCVote c)
  return ⟨h, r, vs⟩
def decTC (c : Bool) : Dec TC := do
  let r ← Dec.u64
  let vs ← Dec.vec (decTCVote c)
  return ⟨r, vs⟩
def decBlock (c : Bool) : Dec Block := do
  let qc ← decQC c
  let tc ← Dec.option (decTC c)
  let a ← decPk c
  let r ← Dec.u64
  let p ← Dec.vec decDigest
  let s ← decSig
  return ⟨qc, tc, a, r, p, s⟩
def decVote (c : Bool) : Dec Vote := do
  let h ← decDigest
  let r ← Dec.u64
  let a ← decPk c
  let s ← decSig
  return ⟨h, r, a, s⟩
def decTimeout (c : Bool) : Dec Timeout := do
  let q ← decQC c
  let r ← Dec.u64
  let a ← decPk c
  let s ← decSig
  return ⟨q, r, a, s⟩
def decCMsg (c : Bool) : Dec CMsg := do
  let tag ← Dec.u32
  if tag = 0 then do let b ← decBlock c; return .propose b
  else if tag = 1 then do let v ← decVote c; return .vote v
  else if tag = 2 then do let t ← decTimeout c; return .timeout t
  else if tag = 3 then do let t ← decTC c; return .tc t
  else if tag = 4 then do
    let d ← decDigest
    let k ← decPk c
    return .syncRequest d k
  else Dec.fail
def decMMsg (c : Bool) : Dec MMsg := do
  let tag ← Dec.u32
  if tag = 0 then do let txs ← Dec.vec Dec.byteVec; return .batch txs
  else if tag = 1 then do
    let ds ← Dec.vec decDigest
    let k ← decPk c
    return .batchRequest ds k
  else Dec.fail

/-- The sync path of a block: the bytes `Core::store_block` stored (`bincode::serialize(&block)`) are read
by the `Helper`, deserialised as a `Block`, wrapped in `ConsensusMessage::Propose`, serialised and sent;
the requesting node's receiver deserialises the frame.  Returns the frame and the message received. -/
def syncPath (c : Bool) (stored : List UInt8) : Res (List UInt8 × CMsg) :=
  match (decBlock c).run stored with
  | .ok (b, _) =>
    match (decCMsg c).run (encCMsg (.propose b)) with
    | .ok (m, _) => .ok (encCMsg (.propose b), m)
    | .err => .err
    | .panic => .panic
  | .err => .err
  | .panic => .panic

end HS.Wire
