import HotstuffModel.Model.Types
import HotstuffModel.Generated.Guards
/-
The five `verify` functions of consensus/src/messages.rs, statement by statement.
-/
namespace HS

inductive VErr where
  | unknownAuthority | invalidSignature | authorityReuse | qcRequiresQuorum | tcRequiresQuorum
  | wrongLeader
  deriving DecidableEq, Repr, Inhabited

/-- The signer loop shared by `QC::verify` and `TC::verify`: reject a repeated name, reject a name
without stake, accumulate the weight. -/
def checkSigners (c : Committee) : List Nat → List Nat → Nat → Except VErr Nat
  | [], _, w => .ok w
  | n :: rest, used, w =>
    if used.contains n then .error .authorityReuse
    else if !Gen.certSignerStake (c.stake n) then .error .unknownAuthority
    else checkSigners c rest (n :: used) (w + c.stake n)

def QC.verify (c : Committee) (q : QC) : Except VErr Unit :=
  match checkSigners c q.signers [] 0 with
  | .error e => .error e
  | .ok w =>
    if !Gen.qcVerifyQuorum w c.quorum then .error .qcRequiresQuorum
    else if q.votes.all (fun v => v.2.valid q.content v.1) then .ok ()
    else .error .invalidSignature

def TC.verify (c : Committee) (t : TC) : Except VErr Unit :=
  match checkSigners c t.signers [] 0 with
  | .error e => .error e
  | .ok w =>
    if !Gen.tcVerifyQuorum w c.quorum then .error .tcRequiresQuorum
    else if t.votes.all (fun v => v.2.1.valid (.timeout t.round v.2.2) v.1) then .ok ()
    else .error .invalidSignature

def Vote.verify (c : Committee) (v : Vote) : Except VErr Unit :=
  if !Gen.voteAuthorStake (c.stake v.author) then .error .unknownAuthority
  else if v.sig.valid v.content v.author then .ok ()
  else .error .invalidSignature

def Timeout.verify (c : Committee) (t : Timeout) : Except VErr Unit :=
  if !Gen.timeoutAuthorStake (c.stake t.author) then .error .unknownAuthority
  else if !t.sig.valid t.content t.author then .error .invalidSignature
  else if t.highQC.isGenesis then .ok ()
  else t.highQC.verify c

def Block.verify (c : Committee) (b : Block) : Except VErr Unit :=
  if !Gen.blockAuthorStake (c.stake b.author) then .error .unknownAuthority
  else if !b.sig.valid (.block b.digest) b.author then .error .invalidSignature
  else
    match (if b.qc.isGenesis then .ok () else b.qc.verify c) with
    | .error e => .error e
    | .ok () =>
      match b.tc with
      | none => .ok ()
      | some tc => tc.verify c

end HS
