import HotstuffModel.Model.Base64
/-!
# The JSON string layer (`serde_json`) as far as key files need it

`serde_json` writes a `&str` as `"` + contents + `"`, escaping exactly the bytes `"`, `\` and the control
bytes below 0x20 (`format_escaped_str_contents`, table `ESCAPE`); all other bytes are copied.
The reader below handles the escape-free subset only (an escape makes it return `none` — escapes are
*not modelled*; C18 shows they never occur in key text).
-/
namespace HS.Wire.Json

def quote : UInt8 := 34
def backslash : UInt8 := 92

/-- Does `serde_json` escape this byte inside a string? -/
def needsEscape (c : UInt8) : Bool := c == quote || c == backslash || c.toNat < 32

def hexDigit (n : Nat) : UInt8 := if n < 10 then UInt8.ofNat (48 + n) else UInt8.ofNat (87 + n)

/-- `serde_json` `CharEscape` → bytes. -/
def escapeByte (c : UInt8) : List UInt8 :=
  if c = quote then [backslash, quote]
  else if c = backslash then [backslash, backslash]
  else if c = 8 then [backslash, 98]
  else if c = 9 then [backslash, 116]
  else if c = 10 then [backslash, 110]
  else if c = 12 then [backslash, 102]
  else if c = 13 then [backslash, 114]
  else if c.toNat < 32 then [backslash, 117, 48, 48, hexDigit (c.toNat / 16), hexDigit (c.toNat % 16)]
  else [c]

/-- `serde_json::to_string(&str)`. -/
def writeStr (s : List UInt8) : List UInt8 := quote :: ((s.map escapeByte).flatten ++ [quote])

/-- Contents up to the closing quote; `none` if an escape or a control byte is met (not modelled) or the
string is unterminated. -/
def scan : List UInt8 → Option (List UInt8 × List UInt8)
  | [] => none
  | c :: r =>
    if c = quote then some ([], r)
    else if c = backslash ∨ c.toNat < 32 then none
    else match scan r with
      | some (s, rest) => some (c :: s, rest)
      | none => none

/-- Read a JSON string literal (escape-free subset). -/
def readStr : List UInt8 → Option (List UInt8 × List UInt8)
  | [] => none
  | c :: r => if c = quote then scan r else none

end HS.Wire.Json
