import HotstuffModel.Model.Committee
/-
`RRLeaderElector::get_leader`: collect the keys, sort them, index by the translated expression
(`Gen.leaderIndex round size`, from consensus/src/leader.rs).
-/
namespace HS

def insertSorted (a : Nat) : List Nat → List Nat
  | [] => [a]
  | b :: l => if a ≤ b then a :: b :: l else b :: insertSorted a l

def sortKeys : List Nat → List Nat
  | [] => []
  | a :: l => insertSorted a (sortKeys l)

/-- `none` is the Rust panic (index out of bounds / remainder by zero on an empty committee). -/
def Committee.leader? (c : Committee) (round : Nat) : Option Nat :=
  (sortKeys c.keys)[Gen.leaderIndex round c.keys.length]?

def Committee.leader (c : Committee) (round : Nat) : Nat := (c.leader? round).getD 0

end HS
