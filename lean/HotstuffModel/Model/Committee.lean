import HotstuffModel.Generated.Quorum
/-
Model of `consensus::config::Committee` / `mempool::config::Committee`:
a map key ↦ stake (keys are distinct because the Rust type is a HashMap), its total stake and
the quorum threshold.  The arithmetic comes from `Generated/Quorum.lean`, i.e. from the source.
-/
namespace HS

structure Committee where
  auths : List (Nat × Nat)
  deriving Repr

namespace Committee

def keys (c : Committee) : List Nat := c.auths.map Prod.fst

/-- `Committee::stake`: the stake of a member, the translated default otherwise. -/
def stake (c : Committee) (k : Nat) : Nat :=
  match c.auths.lookup k with
  | some s => s
  | none => Gen.unknownStakeConsensus

/-- The mempool crate's copy. -/
def stakeMempool (c : Committee) (k : Nat) : Nat :=
  match c.auths.lookup k with
  | some s => s
  | none => Gen.unknownStakeMempool

def total (c : Committee) : Nat := (c.auths.map Prod.snd).sum

/-- `Committee::quorum_threshold` (consensus crate). -/
def quorum (c : Committee) : Nat := Gen.qtConsensus c.total

/-- `Committee::quorum_threshold` (mempool crate). -/
def quorumMempool (c : Committee) : Nat := Gen.qtMempool c.total

/-- Well-formedness that the Rust type guarantees by construction: distinct keys. -/
def WF (c : Committee) : Prop := c.keys.Nodup

instance (c : Committee) : Decidable c.WF := by unfold WF; infer_instance

/-- Total stake of a list of signers. -/
def weight (c : Committee) (l : List Nat) : Nat := (l.map c.stake).sum

end Committee
end HS
