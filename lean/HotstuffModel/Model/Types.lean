import HotstuffModel.Model.Committee
/-
Symbolic message types of the consensus protocol (DESIGN §3.4).

* A `Digest` is the *pre-image term* of the hash: collision-freeness of SHA-512/256 is constructor
  injectivity.  The byte-level pre-image layouts are modelled and proved injective separately
  (`Model/Preimage.lean`, C20).
* A signature is a token `(signer, content)`: `Sig.valid` holds exactly when the token names the key
  and the content it is checked against (ideal, unforgeable signatures; ed25519 is modelled, not verified).
* Keys are `Nat`s: the harness numbers the real 32-byte keys by their rank in byte-lexicographic
  order (an order isomorphism, so sorting agrees).  Key 0 is `PublicKey::default()`.
-/
namespace HS

inductive Digest where
  | zero
  | raw (n : Nat)
  | block (author : Nat) (round : Nat) (payload : List Nat) (parent : Digest)
  deriving DecidableEq, Repr, Inhabited

/-- What a signature was produced over (one constructor per digest kind: domain separation). -/
inductive Content where
  | block (d : Digest)
  | vote (hash : Digest) (round : Nat)
  | timeout (round : Nat) (highQcRound : Nat)
  | junk (n : Nat)
  deriving DecidableEq, Repr, Inhabited

structure Sig where
  signer : Nat
  content : Content
  deriving DecidableEq, Repr, Inhabited

/-- `Signature::verify(digest, key)` in the ideal model. -/
def Sig.valid (s : Sig) (c : Content) (k : Nat) : Bool := s.signer == k && s.content == c

structure QC where
  hash : Digest
  round : Nat
  votes : List (Nat × Sig)
  deriving DecidableEq, Repr, Inhabited

structure TC where
  round : Nat
  votes : List (Nat × Sig × Nat)
  deriving DecidableEq, Repr, Inhabited

structure Block where
  qc : QC
  tc : Option TC
  author : Nat
  round : Nat
  payload : List Nat
  sig : Sig
  deriving DecidableEq, Repr, Inhabited

structure Vote where
  hash : Digest
  round : Nat
  author : Nat
  sig : Sig
  deriving DecidableEq, Repr, Inhabited

structure Timeout where
  highQC : QC
  round : Nat
  author : Nat
  sig : Sig
  deriving DecidableEq, Repr, Inhabited

/-- Messages that reach `Core` (the receiver routes `SyncRequest` to the `Helper`). -/
inductive Msg where
  | propose (b : Block)
  | vote (v : Vote)
  | timeout (t : Timeout)
  | tc (t : TC)
  deriving DecidableEq, Repr, Inhabited

namespace QC
/-- `QC::genesis()` = `QC::default()`. -/
def genesis : QC := { hash := .zero, round := 0, votes := [] }
/-- Rust `impl PartialEq for QC`: hash and round only. -/
def same (a b : QC) : Bool := a.hash == b.hash && a.round == b.round
def isGenesis (q : QC) : Bool := q.same genesis
/-- The content every vote in the QC signs (`impl Hash for QC` = `impl Hash for Vote`). -/
def content (q : QC) : Content := .vote q.hash q.round
def signers (q : QC) : List Nat := q.votes.map Prod.fst
end QC

namespace TC
def signers (t : TC) : List Nat := t.votes.map (fun v => v.1)
/-- `TC::high_qc_rounds`. -/
def highQcRounds (t : TC) : List Nat := t.votes.map (fun v => v.2.2)
end TC

namespace Block
/-- `impl Hash for Block`: author, round, payload, parent (= qc.hash). -/
def digest (b : Block) : Digest := .block b.author b.round b.payload b.qc.hash
def parent (b : Block) : Digest := b.qc.hash
/-- `Block::genesis()` = `Block::default()`. -/
def genesis : Block :=
  { qc := QC.genesis, tc := none, author := 0, round := 0, payload := [], sig := ⟨0, .junk 0⟩ }
end Block

def Vote.content (v : Vote) : Content := .vote v.hash v.round
def Timeout.content (t : Timeout) : Content := .timeout t.round t.highQC.round

end HS
