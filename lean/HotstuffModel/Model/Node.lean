import HotstuffModel.Model.Aggregator
import HotstuffModel.Model.Leader
import HotstuffModel.Generated.Switches
import HotstuffModel.Generated.Guards
/-
One consensus node = `Core` + `Proposer` + consensus `Synchronizer` + `PayloadWaiter` + `Helper`
and the channels between them (consensus/src/{core,proposer,synchronizer,mempool,helper}.rs),
as one state record and one micro-step per handler invocation (DESIGN §3.2).

`hist` is a ghost log of everything the node ever emitted (newest first); no step reads it.
`panic` is sticky: a Rust panic kills the task, after which the node does nothing.
-/
namespace HS

inductive PMsg where
  | make (round : Nat) (qc : QC) (tc : Option TC)
  | cleanup (ds : List Nat)
  deriving Repr, Inhabited, DecidableEq

inductive PanicSite where
  | emptyTC                   -- core.rs make_vote: `.max().expect("Empty TC")`
  | missingAncestorCommit     -- core.rs commit: "We should have all the ancestors by now"
  | missingAncestorDelivered  -- synchronizer.rs get_ancestors: "We should have all ancestors of delivered blocks"
  | nextLeaderNotInCommittee  -- core.rs process_block: "The next leader is not in the committee"
  | authorNotInCommittee      -- synchronizer.rs: "Author of valid block is not in the committee"
  | helperNotABlock           -- helper.rs: "Failed to deserialize our own block"
  deriving Repr, Inhabited, DecidableEq

/-- Why a round was entered (C10). -/
inductive Evidence where
  | qc (q : QC)
  | tc (t : TC)
  deriving Repr, Inhabited, DecidableEq

inductive Out where
  | vote (to : Nat) (v : Vote)            -- vote sent to the next leader
  | selfVote (v : Vote)                   -- vote handled locally (we are the next leader)
  | timeout (t : Timeout)                 -- broadcast
  | tc (t : TC)                           -- broadcast
  | propose (b : Block)                   -- own proposal, broadcast
  | commit (b : Block)                    -- delivered on the commit channel
  | syncRequest (to : Option Nat) (d : Digest)  -- `none` = retry broadcast
  | mempoolSync (missing : List Nat) (target : Nat)
  | mempoolCleanup (round : Nat)
  | helperReply (to : Nat) (b : Block)
  | make (round : Nat) (qc : QC) (tc : Option TC)  -- Core → Proposer (internal)
  | entered (round : Nat) (ev : Evidence)          -- ghost: the round changed
  | voted (b : Block)                              -- ghost: a vote for b was signed (`make_vote`)
  | twoChain (b0 b1 blk : Block)                   -- ghost: `commit(b0)` was called on this 2-chain
  deriving Repr, Inhabited, DecidableEq

structure Node where
  name : Nat
  round : Nat := 1
  lastVoted : Nat := 0
  lastCommitted : Nat := 0
  highQC : QC := QC.genesis
  agg : Aggregator := {}
  /-- blocks written by `store_block`, newest first -/
  store : List (Digest × Block) := []
  /-- batch digests present in the (shared) store -/
  avail : List Nat := []
  loopQ : List Block := []
  propQ : List PMsg := []
  buffer : List Nat := []
  syncPending : List Block := []
  syncRequests : List Digest := []
  payPending : List (Block × List Nat) := []
  panic : Option PanicSite := none
  hist : List Out := []
  deriving Repr, Inhabited

inductive Event where
  | msg (m : Msg)                 -- rx_message
  | timer                         -- the round timer fired
  | loopback                      -- Core takes the head of rx_loopback
  | proposer (order : List Nat)   -- Proposer takes the head of its queue (`order` = HashSet drain order)
  | digest (d : Nat)              -- mempool → proposer buffer
  | batch (d : Nat)               -- a batch lands in the store
  | syncResume (i : Nat)          -- i-th parked block whose parent is now stored
  | payloadResume (i : Nat)       -- i-th parked block whose batches are now all stored
  | syncRetry (d : Digest)        -- synchronizer timer: re-broadcast the request for d
  | helper (d : Digest) (origin : Nat)  -- a SyncRequest reaches the Helper
  deriving Repr, Inhabited

namespace Node

def emit (s : Node) (o : Out) : Node := { s with hist := o :: s.hist }
def fail (s : Node) (p : PanicSite) : Node := { s with panic := some p }

/-- `Core::spawn` + the boot part of `Core::run`. -/
def init (c : Committee) (name : Nat) : Node :=
  let s : Node := { name := name }
  if name == c.leader 1 then
    { s with propQ := [PMsg.make 1 QC.genesis none], hist := [Out.make 1 QC.genesis none] }
  else s

/-! ### store -/

inductive Read where
  | found (b : Block)
  | missing
  | corrupt     -- the key holds something that is not a block (a batch: the store is shared)
  deriving Repr, Inhabited

def readBlock (s : Node) (d : Digest) : Read :=
  match s.store.lookup d with
  | some b => .found b
  | none =>
    match d with
    | .raw n => if s.avail.contains n then .corrupt else .missing
    | _ => .missing

def storeBlock (s : Node) (b : Block) : Node := { s with store := (b.digest, b) :: s.store }

/-! ### synchronizer (consensus/src/synchronizer.rs) -/

/-- The synchronizer task receiving a block whose parent is missing. -/
def park (c : Committee) (s : Node) (b : Block) : Node :=
  if s.syncPending.any (fun x => x.digest == b.digest) then s
  else if s.syncRequests.contains b.parent then { s with syncPending := s.syncPending ++ [b] }
  else if c.keys.contains b.author then
    ({ s with syncPending := s.syncPending ++ [b], syncRequests := s.syncRequests ++ [b.parent] }).emit
      (.syncRequest (some b.author) b.parent)
  else
    ({ s with syncPending := s.syncPending ++ [b], syncRequests := s.syncRequests ++ [b.parent] }).fail
      .authorNotInCommittee

inductive Parent where
  | found (b : Block)
  | parked          -- `Ok(None)`: handed to the synchronizer
  | error           -- `Err(..)`: store holds a non-block under the parent digest
  deriving Repr, Inhabited

/-- `Synchronizer::get_parent_block`. -/
def getParent (c : Committee) (s : Node) (b : Block) : Node × Parent :=
  if b.qc.isGenesis then (s, .found Block.genesis)
  else
    match s.readBlock b.parent with
    | .found p => (s, .found p)
    | .corrupt => (s, .error)
    | .missing => (park c s b, .parked)

/-! ### core.rs -/

def advanceRound (s : Node) (r : Nat) (ev : Evidence) : Node :=
  if Gen.advanceStale r s.round then s
  else ({ s with round := r + 1, agg := s.agg.cleanup (r + 1) }).emit (.entered (r + 1) ev)

def updateHighQC (s : Node) (qc : QC) : Node :=
  if Gen.newHighQC qc.round s.highQC.round then { s with highQC := qc } else s

def processQC (s : Node) (qc : QC) : Node := (s.advanceRound qc.round (.qc qc)).updateHighQC qc

def generateProposal (s : Node) (tc : Option TC) : Node :=
  ({ s with propQ := s.propQ ++ [PMsg.make s.round s.highQC tc] }).emit (Out.make s.round s.highQC tc)

def handleVote (c : Committee) (s : Node) (v : Vote) : Node :=
  if Gen.voteStale v.round s.round then s
  else match v.verify c with
    | .error _ => s
    | .ok _ =>
      match s.agg.addVote c v with
      | .error _ => s
      | .ok (agg, none) => { s with agg := agg }
      | .ok (agg, some qc) =>
        let s := ({ s with agg := agg }).processQC qc
        if s.name == c.leader s.round then s.generateProposal none else s

def handleTimeout (c : Committee) (s : Node) (t : Timeout) : Node :=
  if Gen.timeoutStale t.round s.round then s
  else match t.verify c with
    | .error _ => s
    | .ok _ =>
      let s := s.processQC t.highQC
      match s.agg.addTimeout c t with
      | .error _ => s
      | .ok (agg, none) => { s with agg := agg }
      | .ok (agg, some tc) =>
        let s := ({ s with agg := agg }).advanceRound tc.round (.tc tc)
        let s := s.emit (.tc tc)
        if s.name == c.leader s.round then s.generateProposal (some tc) else s

def handleTC (c : Committee) (s : Node) (tc : TC) : Node :=
  match tc.verify c with
  | .error _ => s
  | .ok _ =>
    if Gen.tcStale tc.round s.round then s
    else
      let s := s.advanceRound tc.round (.tc tc)
      if s.name == c.leader s.round then s.generateProposal (some tc) else s

/-- `Core::local_timeout_round`. -/
def localTimeout (c : Committee) (s : Node) : Node :=
  let s := { s with lastVoted := max s.lastVoted s.round }
  let t : Timeout := { highQC := s.highQC, round := s.round, author := s.name,
                       sig := ⟨s.name, .timeout s.round s.highQC.round⟩ }
  let s := s.emit (.timeout t)
  s.handleTimeout c t

/-- `max` of `tc.high_qc_rounds()`; `none` is the `expect("Empty TC")` panic. -/
def maxRounds : List Nat → Option Nat
  | [] => none
  | a :: l => some (l.foldl max a)

/-- Safety rule 2 of `make_vote`; `none` is the `expect("Empty TC")` panic (the maximum is
computed whenever the block carries a TC). -/
def safetyRule2 (b : Block) : Option Bool :=
  let viaQC := Gen.viaQC b.qc.round b.round
  match b.tc with
  | none => some viaQC
  | some tc =>
    match maxRounds tc.highQcRounds with
    | none => none
    | some m => some (viaQC || (Gen.viaTCRound tc.round b.round && Gen.viaTCHighQC b.qc.round m))

/-- `Core::make_vote`. -/
def makeVote (s : Node) (b : Block) : Node × Option Vote :=
  match safetyRule2 b with
  | none => (s.fail .emptyTC, none)
  | some rule2 =>
    if Gen.safetyRule1 b.round s.lastVoted && rule2 then
      (({ s with lastVoted := max s.lastVoted b.round }).emit (.voted b),
       some { hash := b.digest, round := b.round, author := s.name,
              sig := ⟨s.name, .vote b.digest b.round⟩ })
    else (s, none)

def digestDepth : Digest → Nat
  | .block _ _ _ p => digestDepth p + 1
  | _ => 0

inductive Walk where
  | done (ancestors : List Block)   -- newest first: a₁ (parent of the head), a₂, …
  | panic
  | error
  deriving Repr, Inhabited

/-- The ancestor walk of `Core::commit`: climb while `last_committed_round + 1 < parent.round`,
stop at an ancestor that is already committed (`round ≤ last_committed_round`).
Fuel is the depth of the hash chain (a hash chain cannot cycle). -/
def commitWalk (c : Committee) (s : Node) : Nat → Block → List Block → Walk
  | 0, _, acc => .done acc
  | fuel + 1, cur, acc =>
    if Gen.walkOn cur.round s.lastCommitted then
      match (getParent c s cur).2 with
      | .found a =>
        if Gen.walkStop a.round s.lastCommitted then .done acc
        else commitWalk c s fuel a (acc ++ [a])
      | .parked => .panic
      | .error => .error
    else .done acc

/-- `Core::commit`; the `Bool` says whether it returned `Ok`. -/
def commit (c : Committee) (s : Node) (b : Block) : Node × Bool :=
  if Gen.alreadyCommitted b.round s.lastCommitted then (s, true)
  else
    match commitWalk c s (digestDepth b.digest + 1) b [] with
    | .panic => (s.fail .missingAncestorCommit, false)
    | .error => (s, false)
    | .done anc =>
      let s := { s with lastCommitted := b.round }
      -- `pop_back`: oldest ancestor first, the head last
      ((anc.reverse ++ [b]).foldl (fun s x => s.emit (.commit x)) s, true)

/-- `MempoolDriver::verify` together with the payload waiter's `Wait` handler. -/
def payloadVerify (s : Node) (b : Block) : Node × Bool :=
  let missing := b.payload.filter (fun d => !s.avail.contains d)
  if missing.isEmpty then (s, true)
  else
    let s := s.emit (.mempoolSync missing b.author)
    if s.payPending.any (fun e => e.1.digest == b.digest) then (s, false)
    else ({ s with payPending := s.payPending ++ [(b, missing)] }, false)

/-- `MempoolDriver::cleanup` together with the payload waiter's `Cleanup` handler. -/
def mempoolCleanup (s : Node) (r : Nat) : Node :=
  ({ s with payPending := s.payPending.filter (fun e => e.1.round > r) }).emit (.mempoolCleanup r)

/-- Tail of `process_block`: hand the vote to the next leader (ourselves or over the network). -/
def sendVote (c : Committee) (s : Node) (v : Vote) : Node :=
  if c.leader (s.round + 1) == s.name then (s.emit (.selfVote v)).handleVote c v
  else if c.keys.contains (c.leader (s.round + 1)) then s.emit (.vote (c.leader (s.round + 1)) v)
  else s.fail .nextLeaderNotInCommittee

/-- `process_block` after the commit attempt: round check, `make_vote`, send. -/
def voteStage (c : Committee) (s : Node) (ok : Bool) (b : Block) : Node :=
  if !ok || s.panic.isSome then s
  else if Gen.wrongRound b.round s.round then s
  else
    match s.makeVote b with
    | (s', none) => s'
    | (s', some v) => sendVote c s' v

/-- `store_block` followed by `cleanup_proposer`. -/
def afterStore (s : Node) (b0 b1 b : Block) : Node :=
  { (s.storeBlock b) with
    propQ := s.propQ ++ [PMsg.cleanup (b0.payload ++ b1.payload ++ b.payload)] }

/-- The state handed to `commit` when the 2-chain is consecutive. -/
def beforeCommit (s : Node) (b0 b1 b : Block) : Node :=
  ((afterStore s b0 b1 b).mempoolCleanup b0.round).emit (.twoChain b0 b1 b)

/-- `process_block` once both ancestors are at hand: store, tell the proposer, commit, vote. -/
def processBlockTail (c : Committee) (s : Node) (b0 b1 b : Block) : Node :=
  if Gen.twoChainRule b0.round b1.round then
    voteStage c (commit c (beforeCommit s b0 b1 b) b0).1 (commit c (beforeCommit s b0 b1 b) b0).2 b
  else
    voteStage c (afterStore s b0 b1 b) true b

/-- `Core::process_block`. -/
def processBlock (c : Committee) (s : Node) (b : Block) : Node :=
  match (getParent c s b).2 with
  | .parked => (getParent c s b).1
  | .error => (getParent c s b).1
  | .found b1 =>
    match (getParent c (getParent c s b).1 b1).2 with
    | .parked => (getParent c (getParent c s b).1 b1).1.fail .missingAncestorDelivered
    | .error => (getParent c (getParent c s b).1 b1).1
    | .found b0 => processBlockTail c (getParent c (getParent c s b).1 b1).1 b0 b1 b

/-- `if let Some(ref tc) = block.tc { self.advance_round(tc.round) }`. -/
def advanceTC (s : Node) (tc : Option TC) : Node :=
  match tc with
  | some tc => s.advanceRound tc.round (.tc tc)
  | none => s

/-- `handle_proposal` after the certificates were processed: payload check, then `process_block`. -/
def proposalTail (c : Committee) (s : Node) (b : Block) : Node :=
  match s.payloadVerify b with
  | (s', false) => s'
  | (s', true) => processBlock c s' b

/-- `Core::handle_proposal`. -/
def handleProposal (c : Committee) (s : Node) (b : Block) : Node :=
  if b.author != c.leader b.round then s
  else match b.verify c with
    | .error _ => s
    | .ok _ => proposalTail c ((s.processQC b.qc).advanceTC b.tc) b

/-! ### proposer.rs -/

def isPerm (a b : List Nat) : Bool :=
  a.length == b.length && a.all (fun x => a.count x == b.count x)

/-- `Block::new` in `Proposer::make_block`: the block signed by ourselves over its digest. -/
def ownBlock (name r : Nat) (qc : QC) (tc : Option TC) (payload : List Nat) : Block :=
  { qc := qc, tc := tc, author := name, round := r, payload := payload,
    sig := ⟨name, .block (.block name r payload qc.hash)⟩ }

def proposerStep (s : Node) (order : List Nat) : Node :=
  match s.propQ with
  | [] => s
  | .cleanup ds :: rest => { s with propQ := rest, buffer := s.buffer.filter (fun d => !ds.contains d) }
  | .make r qc tc :: rest =>
    if !isPerm order s.buffer then s
    else
      ({ s with propQ := rest, buffer := [], loopQ := s.loopQ ++ [ownBlock s.name r qc tc order] }).emit
        (.propose (ownBlock s.name r qc tc order))

/-! ### helper.rs -/

def helperStep (c : Committee) (s : Node) (d : Digest) (origin : Nat) : Node :=
  if !c.keys.contains origin then s
  else match s.readBlock d with
    | .found b => s.emit (.helperReply origin b)
    | .missing => s
    | .corrupt =>
      -- a stored entry that is not a block (a batch: the store is shared with the mempool) is
      -- skipped, or `expect`ed, depending on what helper.rs currently does (Generated/Switches)
      if Gen.helperSkipsNonBlock then s else s.fail .helperNotABlock

/-! ### mempool side -/

/-- A batch lands in the (shared) store: a peer's batch stored by the mempool's `Processor`,
or a missing batch fetched by the mempool synchronizer. -/
def storeBatch (s : Node) (d : Nat) : Node :=
  if s.avail.contains d then s else { s with avail := d :: s.avail }

/-- The node's own mempool hands a digest to the proposer.  `Processor` (mempool/src/processor.rs)
writes the batch to the store and only then sends its digest, so the event does both. -/
def digestStep (s : Node) (d : Nat) : Node :=
  if (s.storeBatch d).buffer.contains d then s.storeBatch d
  else { (s.storeBatch d) with buffer := (s.storeBatch d).buffer ++ [d] }

/-! ### the micro-step -/

def removeAt (l : List α) (i : Nat) : List α := l.take i ++ l.drop (i + 1)

def step (c : Committee) (s : Node) (e : Event) : Node :=
  if s.panic.isSome then s
  else match e with
    | .msg (.propose b) => s.handleProposal c b
    | .msg (.vote v) => s.handleVote c v
    | .msg (.timeout t) => s.handleTimeout c t
    | .msg (.tc t) => s.handleTC c t
    | .timer => s.localTimeout c
    | .loopback =>
      match s.loopQ with
      | [] => s
      | b :: rest => ({ s with loopQ := rest }).processBlock c b
    | .proposer order => s.proposerStep order
    | .digest d => s.digestStep d
    | .batch d => s.storeBatch d
    | .syncResume i =>
      match s.syncPending[i]? with
      | none => s
      | some b =>
        match s.readBlock b.parent with
        | .missing => s
        | _ => { s with syncPending := removeAt s.syncPending i,
                        syncRequests := s.syncRequests.filter (fun d => d != b.parent),
                        loopQ := s.loopQ ++ [b] }
    | .payloadResume i =>
      match s.payPending[i]? with
      | none => s
      | some (b, missing) =>
        if missing.all (fun d => s.avail.contains d) then
          { s with payPending := removeAt s.payPending i, loopQ := s.loopQ ++ [b] }
        else s
    | .syncRetry d => if s.syncRequests.contains d then s.emit (.syncRequest none d) else s
    | .helper d origin => s.helperStep c d origin

def run (c : Committee) (s : Node) (es : List Event) : Node := es.foldl (step c) s

end Node
end HS
