import HotstuffModel.Generated.Guards
/-!
# The peer-facing side of the mempool (C11, C13)

Executable model of four pieces of `/repo/mempool/src`, as they are wired by `Mempool::spawn`:

* `mempool.rs`, `MempoolReceiverHandler::dispatch` — every frame that arrives on the mempool port is
  ACKed first; then it is decoded: a `MempoolMessage::Batch` goes to the `Processor` **as the
  received bytes**, a `MempoolMessage::BatchRequest(digests, origin)` goes to the `Helper`, anything
  else is logged and dropped (the connection stays open).
* `processor.rs`, `Processor` — `digest = SHA-512(bytes)[..32]`, `store.write(digest, bytes)`,
  `tx_digest.send(digest)` (to consensus).
* `helper.rs`, `Helper` — for a request `(digests, origin)`: if `origin` has no mempool address in
  the committee the request is dropped; otherwise every digest is read from the store, in request
  order, and the stored bytes (whatever they are) are sent to `origin`'s mempool address; digests
  that are not in the store are skipped.
* `synchronizer.rs`, `Synchronizer` — commands from consensus and a retry timer, see `step`.

Identifiers.  Public keys, digests and byte strings are `Nat` identifiers (the harness interns the
real 32-byte keys/digests and the real frames).  SHA-512/256 is the parameter `Cfg.hash` (bytes id
→ digest id); nothing below assumes anything about it.  `members` are the authorities of the
committee (`Committee::mempool_address(x)` is `Some` iff `x ∈ members`); `name ∈ members` for a
node that booted (`Mempool::spawn` panics otherwise).

What the code keeps per pending digest is mirrored exactly: `pending : HashMap<Digest, (Round,
Sender<()>, u128)>` is a list of `(digest, round, timestamp)` without duplicate digests (an entry is
only inserted after `contains_key` said no); the cancel handle is the identity of the entry.
`round` is the synchronizer's own copy of the consensus round: the argument of the last `Cleanup`
(0 before the first), *not* the round of the block that needs the batch.  The timestamp is
`SystemTime::now()` in ms (wall clock) when `Synchronize` was handled, it is a parameter of the
event, like the `now` the timer branch reads.

Nondeterminism of the code that is a parameter here: the wall clock (`now`), the peers
`lucky_broadcast` picks (`peers`), and the moment a waiter future completes (`batchStored`: the
`notify_read` of a pending digest returns; it can only do so once the digest is in the store).
The order of the digests inside a retry request is the iteration order of a `HashMap` in the code;
the model lists them in insertion order and every statement about them is about membership.

Not modelled: closed channels at shutdown (`expect("Failed to send …")`), RocksDB errors
(`Err(e) => error!`), a refused/broken TCP connection (`SimpleSender` is best effort: the frame is
lost, which is the environment dropping an `Out`).
-/
namespace HS.MS

structure Cfg where
  /-- this node's public key -/
  name : Nat
  /-- authorities of the committee (those with a mempool address) -/
  members : List Nat
  /-- `Parameters::gc_depth` -/
  gcDepth : Nat
  /-- `Parameters::sync_retry_delay` (ms) -/
  retryDelay : Nat
  /-- `Parameters::sync_retry_nodes` -/
  retryNodes : Nat
  /-- SHA-512 truncated to 32 bytes, on identifiers -/
  hash : Nat → Nat

/-- One entry of `Synchronizer::pending`. -/
structure PEntry where
  digest : Nat
  /-- `self.round` when the entry was made (the argument of the last `Cleanup`) -/
  round : Nat
  /-- wall clock (ms) when the entry was made -/
  ts : Nat
  deriving DecidableEq, Repr

structure State where
  /-- the shared store, newest binding first (`lookup` returns the newest) -/
  store : List (Nat × Nat) := []
  /-- `Synchronizer::pending`, in insertion order -/
  pending : List PEntry := []
  /-- `Synchronizer::round` -/
  round : Nat := 0
  deriving DecidableEq, Repr

def init : State := {}

inductive Event where
  /-- a frame that decodes as `MempoolMessage::Batch` arrives on the mempool port; `bytes` is the
  whole frame -/
  | batchFrame (bytes : Nat)
  /-- a frame that decodes as `MempoolMessage::BatchRequest(ds, origin)` arrives -/
  | batchRequest (ds : List Nat) (origin : Nat)
  /-- a frame that does not decode arrives -/
  | garbage
  /-- `ConsensusMempoolMessage::Synchronize(ds, target)`; `now` = wall clock read by the handler -/
  | synchronize (ds : List Nat) (target : Nat) (now : Nat)
  /-- `ConsensusMempoolMessage::Cleanup(round)` -/
  | cleanup (round : Nat)
  /-- the retry timer fires; `now` = wall clock, `peers` = the nodes `lucky_broadcast` picks -/
  | timer (now : Nat) (peers : List Nat)
  /-- the waiter future of digest `d` completes with `Ok(Some(d))` -/
  | batchStored (d : Nat)
  /-- somebody else writes the shared store (consensus stores blocks in it, the other `Processor`
  stores the node's own batches) -/
  | extWrite (d : Nat) (bytes : Nat)
  deriving DecidableEq, Repr

inductive Out where
  /-- the literal frame `Ack` written back on the connection the frame came from -/
  | ack
  /-- `store.write(d, bytes)` -/
  | stored (d : Nat) (bytes : Nat)
  /-- `tx_digest.send(d)`: the digest handed to consensus -/
  | digestToConsensus (d : Nat)
  /-- `BatchRequest(ds, name)` sent to `target`'s mempool address -/
  | requestTo (target : Nat) (ds : List Nat)
  /-- `BatchRequest(ds, name)` sent to the mempool address of every node of `peers` -/
  | retryTo (peers : List Nat) (ds : List Nat)
  /-- the stored bytes sent, as a frame, to `origin`'s mempool address -/
  | reply (origin : Nat) (bytes : Nat)
  deriving DecidableEq, Repr

/-- `store.read(d)` -/
def lookup (st : List (Nat × Nat)) (d : Nat) : Option Nat :=
  match st with
  | [] => none
  | (k, v) :: rest => if k = d then some v else lookup rest d

def isPending (p : List PEntry) (d : Nat) : Bool := p.any (fun e => e.digest == d)

def pendingDigests (p : List PEntry) : List Nat := p.map (·.digest)

/-- The loop of the `Synchronize` handler: walk the digests; one that is already a key of
`pending` is skipped, any other one is appended to `missing` and entered into `pending` with the
current `round` and `now`.  (The store is **not** consulted.)  Returns (pending', missing). -/
def register (round now : Nat) : List PEntry → List Nat → List PEntry × List Nat
  | p, [] => (p, [])
  | p, d :: ds =>
    if isPending p d then register round now p ds
    else
      let r := register round now (p ++ [⟨d, round, now⟩]) ds
      (r.1, d :: r.2)

/-- `committee.broadcast_addresses(&name)`: everybody but me. -/
def others (cfg : Cfg) : List Nat := cfg.members.filter (fun m => m != cfg.name)

/-- What `lucky_broadcast` can pick: `min(sync_retry_nodes, #others)` different other members. -/
def legalPick (cfg : Cfg) (peers : List Nat) : Bool :=
  decide peers.Nodup && peers.all (fun p => (others cfg).contains p) &&
    (peers.length == min cfg.retryNodes (others cfg).length)

/-- The event's `peers` if it is a possible pick, else some possible pick (so that `step` is total
and every emitted retry is one the code can emit). -/
def pick (cfg : Cfg) (peers : List Nat) : List Nat :=
  if legalPick cfg peers then peers else (others cfg).take cfg.retryNodes

/-- The digests the timer branch re-requests: `timestamp + sync_retry_delay < now`
(`Gen.mpRetryDue`, regenerated from the source on every run). -/
def due (cfg : Cfg) (p : List PEntry) (now : Nat) : List Nat :=
  (p.filter (fun e => decide (Gen.mpRetryDue e.ts cfg.retryDelay now))).map (·.digest)

/-- The helper's replies to one request from a known origin. -/
def replies (st : List (Nat × Nat)) (origin : Nat) : List Nat → List Out
  | [] => []
  | d :: ds =>
    match lookup st d with
    | some v => .reply origin v :: replies st origin ds
    | none => replies st origin ds

def step (cfg : Cfg) (s : State) : Event → State × List Out
  | .batchFrame bytes =>
    -- dispatch: ACK, decode = Batch, processor: hash, write, announce
    let d := cfg.hash bytes
    ({ s with store := (d, bytes) :: s.store }, [.ack, .stored d bytes, .digestToConsensus d])
  | .batchRequest ds origin =>
    -- dispatch: ACK, decode = BatchRequest, helper
    if cfg.members.contains origin then (s, .ack :: replies s.store origin ds)
    else (s, [.ack])
  | .garbage => (s, [.ack])
  | .synchronize ds target now =>
    let r := register s.round now s.pending ds
    -- the entries are made (and their waiters started) before the target is looked up
    ({ s with pending := r.1 },
      if cfg.members.contains target then [.requestTo target r.2] else [])
  | .cleanup round =>
    if round < cfg.gcDepth then ({ s with round := round }, [])
    else
      -- entries with `r <= round - gc_depth` are cancelled and dropped
      ({ s with round := round,
                pending := s.pending.filter (fun e => decide (round - cfg.gcDepth < e.round)) }, [])
  | .timer now peers =>
    let retry := due cfg s.pending now
    if retry.isEmpty then (s, []) else (s, [.retryTo (pick cfg peers) retry])
  | .batchStored d =>
    -- the waiter can only return once `notify_read` has a value
    match lookup s.store d with
    | some _ => ({ s with pending := s.pending.filter (fun e => e.digest != d) }, [])
    | none => (s, [])
  | .extWrite d bytes => ({ s with store := (d, bytes) :: s.store }, [])

/-- Run an event list; the outputs are concatenated in order. -/
def run (cfg : Cfg) (s : State) : List Event → State × List Out
  | [] => (s, [])
  | e :: es =>
    let r := step cfg s e
    let r' := run cfg r.1 es
    (r'.1, r.2 ++ r'.2)

/-- The state reached from `init`. -/
def reach (cfg : Cfg) (es : List Event) : State := (run cfg init es).1

/-- Everything emitted from `init`. -/
def outs (cfg : Cfg) (es : List Event) : List Out := (run cfg init es).2

/-! ### Specification-side vocabulary (used by the theorems) -/

/-- The store write an event performs, if any. -/
def writeOf (cfg : Cfg) : Event → Option (Nat × Nat)
  | .batchFrame b => some (cfg.hash b, b)
  | .extWrite d b => some (d, b)
  | _ => none

/-- The value of the last write to key `d` in the event list. -/
def lastWrite (cfg : Cfg) (d : Nat) : List Event → Option Nat
  | [] => none
  | e :: es =>
    match lastWrite cfg d es with
    | some v => some v
    | none =>
      match writeOf cfg e with
      | some (k, v) => if k = d then some v else none
      | none => none

/-- The batch frames of an event list, in arrival order. -/
def frames : List Event → List Nat
  | [] => []
  | .batchFrame b :: es => b :: frames es
  | _ :: es => frames es

def announced : List Out → List Nat
  | [] => []
  | .digestToConsensus d :: os => d :: announced os
  | _ :: os => announced os

def storedOuts : List Out → List (Nat × Nat)
  | [] => []
  | .stored d b :: os => (d, b) :: storedOuts os
  | _ :: os => storedOuts os

/-- An event that can take digest `d` out of `pending`. -/
def clears (d : Nat) : Event → Bool
  | .batchStored d' => d' == d
  | .cleanup _ => true
  | _ => false

end HS.MS
