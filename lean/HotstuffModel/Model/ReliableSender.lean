/-!
# Model of one `Connection` task of `network::ReliableSender` (network/src/reliable_sender.rs)

One `Connection` serves one peer address.  The Rust control flow that is mirrored:

```
run:        loop { match connect().await {
              Ok  => { delay = 200; retry = 0; keep_alive(stream).await }          -- error ⇒ reconnect at once
              Err => { timer = sleep(delay);
                       'waiter: loop { select! {
                          timer        => { delay = min(2*delay, 60_000); retry += 1; break }
                          Some(m)=recv => { buffer.push_back(m); buffer.retain(!closed) } } } } } }
keep_alive: pending = [];
            'connection: loop {
              while let Some(m) = buffer.pop_front() {
                 if m.handler.is_closed() { continue }
                 match write(m) { Ok => pending.push_back(m),
                                  Err => { buffer.push_front(m); break 'connection } } }
              select! {
                 Some(m) = recv   => buffer.push_back(m),
                 r = reader.next() => { let m = match pending.pop_front() { Some(m) => m, None => break 'connection /*UnexpectedAck*/ };
                                         match r { Some(Ok(bytes)) => m.handler.send(bytes),
                                                   _ => { pending.push_front(m); break 'connection } } } } };
            while let Some(m) = pending.pop_back() { buffer.push_front(m) }
```

A message is identified by a `Nat` (the harness gives every message a unique payload).  Whether a
handle is closed (`oneshot::Sender::is_closed`, i.e. the caller dropped the `CancelHandler`) is
*environment* state (`closed`), changed only by the external event `cancel`.  The mpsc channel
between `ReliableSender::send` and the task is the explicit FIFO `chan` (its capacity of 1000 only
blocks the caller and is not modelled).  Every `select!` choice, the outcome of every connect and
write, and what the reader yields are events chosen by the environment; all orders are allowed.
An event that the task cannot take in its current control state is a no-op (enabledness is part
of the step).

Ghost state (never read by the step): `handed` (hand-over order) and `trace` (everything emitted).
-/
namespace HS.RS

/-- Where the task's program counter is. -/
inductive Mode where
  /-- awaiting `TcpStream::connect` (no `select!`: nothing else can happen in the task) -/
  | connecting
  /-- in the `'waiter` loop: back-off timer vs. draining the channel -/
  | waiting
  /-- inside `keep_alive` -/
  | connected
  deriving DecidableEq, Repr, Inhabited

inductive Event where
  /-- `ReliableSender::send` put a new `InnerMessage` on the channel (external) -/
  | send (id : Nat)
  /-- the caller dropped the `CancelHandler` of `id` (external) -/
  | cancel (id : Nat)
  | connectOk
  | connectFail
  /-- the back-off `sleep` elapsed -/
  | timerFired
  /-- the `recv()` branch of the `select!` (either the `'waiter` one or the `keep_alive` one) -/
  | recvMsg
  /-- the drain loop pops the cancelled messages at the front of the buffer and then the first
  non-cancelled one, whose `writer.send(..)` starts (`is_closed` is checked HERE, not when the write
  completes: a write can stay blocked on a full socket for arbitrarily long) -/
  | writeBegin
  /-- the write in progress succeeded / failed -/
  | writeOk
  | writeFail
  /-- `reader.next()` yielded `Some(Ok(bytes))` -/
  | ackRead (bytes : Nat)
  /-- `reader.next()` yielded `None` or `Some(Err(_))` -/
  | readClosed
  deriving DecidableEq, Repr, Inhabited

inductive Out where
  /-- a frame carrying message `id` was written on connection number `conn` (observable at the peer) -/
  | frame (conn : Nat) (id : Nat)
  /-- ghost: a response with `bytes` was read on `conn` and popped `id` from `pending_replies` -/
  | ackd (conn : Nat) (id : Nat) (bytes : Nat)
  /-- the handle of `id` completed with `bytes` (observable by the caller) -/
  | resolve (id : Nat) (bytes : Nat)
  deriving DecidableEq, Repr, Inhabited

structure State where
  /-- messages in the mpsc channel, not yet received by the task -/
  chan : List Nat := []
  /-- `self.buffer` -/
  buffer : List Nat := []
  /-- `pending_replies` (exists only inside `keep_alive`; `[]` otherwise) -/
  pending : List Nat := []
  /-- the message popped from the buffer whose `writer.send(..).await` is in progress -/
  writing : Option Nat := none
  mode : Mode := .connecting
  /-- number of connections established so far = number of the current/last connection -/
  connNo : Nat := 0
  /-- `delay` (ms) -/
  delay : Nat := 200
  /-- `retry` -/
  retry : Nat := 0
  /-- environment: handles whose receiver was dropped -/
  closed : List Nat := []
  /-- ghost: every id ever handed over, in hand-over order -/
  handed : List Nat := []
  /-- ghost: everything emitted so far -/
  trace : List Out := []
  deriving Repr, Inhabited

def init : State := {}

/-- `handler.is_closed()` -/
def State.isClosed (s : State) (id : Nat) : Bool := decide (id ∈ s.closed)

/-- The buffer as the drain loop of `keep_alive` sees it: cancelled messages at the front are popped
and dropped (`continue`). -/
def State.drained (s : State) : List Nat := s.buffer.dropWhile s.isClosed

/-- End of `keep_alive`: `while let Some(m) = pending.pop_back() { buffer.push_front(m) }`, then `run`
loops to `connect` immediately (the delay was reset when the connection was established). -/
def teardown (s : State) : State :=
  { s with buffer := s.pending ++ s.buffer, pending := [], mode := .connecting }

/-- One step: new state (without the trace update) and what is emitted. -/
def stepCore (s : State) : Event → State × List Out
  | .send id =>
    if id ∈ s.handed then (s, [])
    else ({ s with chan := s.chan ++ [id], handed := s.handed ++ [id] }, [])
  | .cancel id =>
    if id ∈ s.handed ∧ id ∉ s.closed then ({ s with closed := id :: s.closed }, []) else (s, [])
  | .connectOk =>
    match s.mode with
    | .connecting => ({ s with mode := .connected, connNo := s.connNo + 1, delay := 200, retry := 0 }, [])
    | _ => (s, [])
  | .connectFail =>
    match s.mode with
    | .connecting => ({ s with mode := .waiting }, [])
    | _ => (s, [])
  | .timerFired =>
    match s.mode with
    | .waiting => ({ s with mode := .connecting, delay := min (2 * s.delay) 60000, retry := s.retry + 1 }, [])
    | _ => (s, [])
  | .recvMsg =>
    match s.chan with
    | [] => (s, [])
    | m :: rest =>
      match s.mode with
      | .connecting => (s, [])
      | .waiting =>
        -- push_back, then retain(!is_closed)
        ({ s with chan := rest, buffer := (s.buffer ++ [m]).filter (fun x => !s.isClosed x) }, [])
      | .connected =>
        -- the select! is reached only when no write is in progress and the drain loop has emptied the buffer
        match s.writing, s.drained with
        | none, [] => ({ s with chan := rest, buffer := [m] }, [])
        | _, _ => (s, [])
  | .writeBegin =>
    match s.mode, s.writing with
    | .connected, none =>
      match s.drained with
      | [] => ({ s with buffer := [] }, [])
      | m :: rest => ({ s with buffer := rest, writing := some m }, [])
    | _, _ => (s, [])
  | .writeOk =>
    match s.mode, s.writing with
    | .connected, some m => ({ s with writing := none, pending := s.pending ++ [m] }, [.frame s.connNo m])
    | _, _ => (s, [])
  | .writeFail =>
    match s.mode, s.writing with
    | .connected, some m =>
      (teardown { s with writing := none, buffer := m :: s.buffer }, [])   -- push_front, FailedToSendMessage
    | _, _ => (s, [])
  | .ackRead bytes =>
    match s.mode, s.writing, s.drained with
    | .connected, none, [] =>
      match s.pending with
      | [] => (teardown { s with buffer := [] }, [])               -- UnexpectedAck
      | m :: rest =>
        ({ s with buffer := [], pending := rest },
          .ackd s.connNo m bytes :: (if s.isClosed m then [] else [.resolve m bytes]))
    | _, _, _ => (s, [])
  | .readClosed =>
    match s.mode, s.writing, s.drained with
    | .connected, none, [] => (teardown { s with buffer := [] }, [])   -- UnexpectedAck / FailedToReceiveAck
    | _, _, _ => (s, [])

/-- What the step emits. -/
def outs (s : State) (e : Event) : List Out := (stepCore s e).2

/-- The step, with the ghost trace extended by what was emitted. -/
def step (s : State) (e : Event) : State :=
  { (stepCore s e).1 with trace := s.trace ++ (stepCore s e).2 }

def run (s : State) : List Event → State
  | [] => s
  | e :: es => run (step s e) es

/-- Everything emitted while running `es` from `s`. -/
def runO (s : State) : List Event → List Out
  | [] => []
  | e :: es => outs s e ++ runO (step s e) es

/-- States reachable from `init` by some finite event list. -/
def Reachable (s : State) : Prop := ∃ es, s = run init es

/-! ### Projections of the trace -/

/-- Messages of the frames written on connection `c`, in order. -/
def framesOn (c : Nat) (tr : List Out) : List Nat :=
  tr.filterMap (fun o => match o with | .frame c' id => if c' = c then some id else none | _ => none)

/-- (message, bytes) of the responses consumed on connection `c`, in order. -/
def acksOn (c : Nat) (tr : List Out) : List (Nat × Nat) :=
  tr.filterMap (fun o => match o with | .ackd c' id b => if c' = c then some (id, b) else none | _ => none)

/-- All messages ever written (any connection), in order of writing, with repetitions. -/
def written (tr : List Out) : List Nat :=
  tr.filterMap (fun o => match o with | .frame _ id => some id | _ => none)

/-- All messages whose response was consumed. -/
def acked (tr : List Out) : List Nat :=
  tr.filterMap (fun o => match o with | .ackd _ id _ => some id | _ => none)

/-- All (message, bytes) the handles completed with. -/
def resolved (tr : List Out) : List (Nat × Nat) :=
  tr.filterMap (fun o => match o with | .resolve id b => some (id, b) | _ => none)

/-- Everything the sender still holds, front to back. -/
def State.held (s : State) : List Nat := s.pending ++ s.writing.toList ++ s.buffer ++ s.chan

/-! ### Schedules and expected outputs used in the statements of Properties/C14.lean -/

/-- `n` rounds of the drain loop with every write succeeding. -/
def flush : Nat → List Event
  | 0 => []
  | n + 1 => .writeBegin :: .writeOk :: flush n

/-- What reading the responses `bs` against `pending = ms` emits on connection `c`. -/
def ackOuts (c : Nat) (closed : List Nat) : List Nat → List Nat → List Out
  | m :: ms, b :: bs =>
    .ackd c m b :: ((if decide (m ∈ closed) then [] else [.resolve m b]) ++ ackOuts c closed ms bs)
  | _, _ => []

end HS.RS
