import HotstuffModel.Generated.Guards
/-
The "control system" at the end of `Proposer::make_block` (consensus/src/proposer.rs): after
broadcasting its block through the reliable sender, the proposer does not take its next message until
the peers that acknowledged the block hold, together with the node itself, a quorum of the stake:

    let mut total_stake = self.committee.stake(&self.name);
    while let Some(stake) = wait_for_quorum.next().await {
        total_stake += stake;
        if total_stake >= self.committee.quorum_threshold() { break; }
    }

`wait quorum total stakes` runs that loop over the stakes of the waiters in the order in which they
complete: how many completions it consumes, and whether it left through the `break`.  (When the stream
runs dry — every waiter completed — the loop ends as well.)  The guard is `Gen.proposerQuorum`,
regenerated from the source together with a shape check of the initialisation and the accumulation.
-/
namespace HS.PW

def wait (quorum : Nat) (total : Nat) : List Nat → Nat × Bool
  | [] => (0, false)
  | s :: rest =>
    if Gen.proposerQuorum (total + s) quorum then (1, true)
    else ((wait quorum (total + s) rest).1 + 1, (wait quorum (total + s) rest).2)

end HS.PW
