/-!
# Byte-level primitives of the wire model (namespace `HS.Wire`)

Bytes are `List UInt8`.  This file has the fixed-width little-endian integers used both by the digest
pre-images (`u64::to_le_bytes`) and by bincode's fixint encoding, the three-way decoding outcome
`Res` (value | error | panic — panics are values, DESIGN §3.6), and the byte-stream reader monad
`Dec` on which the bincode decoders are built.

Independent of every other model file.
-/
namespace HS.Wire

/-- `k` little-endian bytes of `n` (i.e. of `n % 256^k`): `u64::to_le_bytes` for `k = 8`. -/
def leN : Nat → Nat → List UInt8
  | 0, _ => []
  | k + 1, n => UInt8.ofNat n :: leN k (n / 256)

/-- `u64::to_le_bytes` (of `n % 2^64`). -/
def le64 (n : Nat) : List UInt8 := leN 8 n
/-- `u32::to_le_bytes` (of `n % 2^32`). -/
def le32 (n : Nat) : List UInt8 := leN 4 n

/-- Little-endian value of a byte string (`u64::from_le_bytes` on 8 bytes). -/
def unle : List UInt8 → Nat
  | [] => 0
  | b :: bs => b.toNat + 256 * unle bs

/-- Outcome of decoding attacker-supplied bytes: a value, a (recoverable) error, or a Rust panic. -/
inductive Res (α : Type) where
  | ok (a : α)
  | err
  | panic
  deriving Repr, DecidableEq

namespace Res
def bind {α β : Type} (r : Res α) (f : α → Res β) : Res β :=
  match r with
  | ok a => f a
  | err => err
  | panic => panic

instance : Monad Res where
  pure := ok
  bind := Res.bind

def isPanic {α : Type} : Res α → Bool
  | panic => true
  | _ => false
end Res

/-- A decoder reads a prefix of the input and returns the value and the unread rest
(`bincode::deserialize` on a slice: trailing bytes are allowed). -/
structure Dec (α : Type) where
  run : List UInt8 → Res (α × List UInt8)

namespace Dec
def pure {α : Type} (a : α) : Dec α := ⟨fun bs => .ok (a, bs)⟩
def bind {α β : Type} (d : Dec α) (f : α → Dec β) : Dec β :=
  ⟨fun bs => match d.run bs with
    | .ok (a, r) => (f a).run r
    | .err => .err
    | .panic => .panic⟩
instance : Monad Dec where
  pure := Dec.pure
  bind := Dec.bind

/-- Fail with a decoding error (bincode `Err`). -/
def fail {α : Type} : Dec α := ⟨fun _ => .err⟩
/-- Lift an outcome that consumes no input. -/
def lift {α : Type} (r : Res α) : Dec α :=
  ⟨fun bs => match r with | .ok a => .ok (a, bs) | .err => .err | .panic => .panic⟩

/-- Read exactly `n` bytes; error at end of input (bincode `UnexpectedEof`). -/
def take (n : Nat) : Dec (List UInt8) :=
  ⟨fun bs => if n ≤ bs.length then .ok (bs.take n, bs.drop n) else .err⟩

/-- Fixint little-endian `u64`. -/
def u64 : Dec Nat := do let b ← take 8; return unle b
/-- Fixint little-endian `u32`. -/
def u32 : Dec Nat := do let b ← take 4; return unle b
/-- One byte. -/
def u8 : Dec UInt8 := ⟨fun bs => match bs with | [] => .err | b :: r => .ok (b, r)⟩

/-- `n` consecutive elements.  serde's `Vec` visitor pre-allocates at most 4096 elements and then
pulls elements one by one, so an absurd length prefix ends in `UnexpectedEof`, not in an allocation
failure: the loop below fails at the first element that does not decode. -/
def many {α : Type} (d : Dec α) : Nat → Dec (List α)
  | 0 => pure []
  | n + 1 => do let x ← d; let xs ← many d n; return x :: xs

/-- `Vec<T>`: `u64` length then the elements. -/
def vec {α : Type} (d : Dec α) : Dec (List α) := do let n ← u64; many d n

/-- `Vec<u8>` / the bytes of a `String`: `u64` length, then that many bytes. -/
def byteVec : Dec (List UInt8) := do let n ← u64; take n

/-- `Option<T>`: tag byte 0 / 1, anything else is an error. -/
def option {α : Type} (d : Dec α) : Dec (Option α) := do
  let t ← u8
  if t = 0 then return none
  else if t = 1 then do let x ← d; return some x
  else fail
end Dec

end HS.Wire
