import HotstuffModel.Model.Bytes
import HotstuffModel.Generated.Switches
/-!
# base64 (crate `base64` 0.13, `STANDARD` config) and the key codecs of `crypto/src/lib.rs`

`encode` / `decode` model `base64::encode` / `base64::decode`: RFC 4648 standard alphabet, `=`
padding written by the encoder.  Text is a list of ASCII bytes (a Rust `String` / `&str` seen as bytes).

What `base64::decode` (0.13.1, `decode_helper`) accepts, read off the crate source:
* input length ≡ 1 (mod 4) is rejected (`InvalidLength`);
* every 8-byte chunk except the last (possibly partial) one must consist of alphabet symbols only;
* in the last chunk `=` may appear only at positions 2, 3 (mod 4) and only `=` may follow a `=`;
  hence (any position ≥ 4 after a `=` is either a `=` at position 0/1 mod 4 or a symbol after padding)
  padding can only sit in the final quad of the whole input, as `xx==`, `xxx=` — or, because the
  decoder does not insist on canonical padding, `xx=`, or no padding at all (`xx`, `xxx`);
* the bits of the last symbol that do not make up a whole byte must be zero (`InvalidLastSymbol`,
  `decode_allow_trailing_bits = false`).
The definition below is that acceptance condition, phrased quad by quad.  The error *kinds* of the crate
are not modelled (the harness compares accept/reject and the decoded bytes).
-/
namespace HS.Wire.Base64

/-- The alphabet: symbol of a 6-bit value (`A–Z a–z 0–9 + /`). -/
def encSym (s : Nat) : UInt8 :=
  if s < 26 then UInt8.ofNat (65 + s)
  else if s < 52 then UInt8.ofNat (71 + s)
  else if s < 62 then UInt8.ofNat (s - 4)
  else if s = 62 then 43
  else 47

/-- Inverse table: 6-bit value of a symbol, `none` for every byte outside the alphabet (incl. `=`). -/
def decSym (c : UInt8) : Option Nat :=
  let n := c.toNat
  if 65 ≤ n ∧ n ≤ 90 then some (n - 65)
  else if 97 ≤ n ∧ n ≤ 122 then some (n - 71)
  else if 48 ≤ n ∧ n ≤ 57 then some (n + 4)
  else if n = 43 then some 62
  else if n = 47 then some 63
  else none

/-- `=` -/
def pad : UInt8 := 61

/-- `base64::encode`. -/
def encode : List UInt8 → List UInt8
  | [] => []
  | [a] => [encSym (a.toNat / 4), encSym (a.toNat % 4 * 16), pad, pad]
  | [a, b] =>
    [encSym (a.toNat / 4), encSym (a.toNat % 4 * 16 + b.toNat / 16), encSym (b.toNat % 16 * 4), pad]
  | a :: b :: c :: rest =>
    encSym (a.toNat / 4) :: encSym (a.toNat % 4 * 16 + b.toNat / 16)
      :: encSym (b.toNat % 16 * 4 + c.toNat / 64) :: encSym (c.toNat % 64) :: encode rest

/-- Four symbols → three bytes. -/
def quad (a b c d : UInt8) : Option (List UInt8) := do
  let w ← decSym a
  let x ← decSym b
  let y ← decSym c
  let z ← decSym d
  some [UInt8.ofNat (w * 4 + x / 16), UInt8.ofNat (x % 16 * 16 + y / 4), UInt8.ofNat (y % 4 * 64 + z)]

/-- Final two symbols → one byte; the 4 unused bits must be zero. -/
def tail2 (a b : UInt8) : Option (List UInt8) := do
  let w ← decSym a
  let x ← decSym b
  if x % 16 = 0 then some [UInt8.ofNat (w * 4 + x / 16)] else none

/-- Final three symbols → two bytes; the 2 unused bits must be zero. -/
def tail3 (a b c : UInt8) : Option (List UInt8) := do
  let w ← decSym a
  let x ← decSym b
  let y ← decSym c
  if y % 4 = 0 then some [UInt8.ofNat (w * 4 + x / 16), UInt8.ofNat (x % 16 * 16 + y / 4)] else none

/-- `base64::decode` (accept/reject and decoded bytes). -/
def decode : List UInt8 → Option (List UInt8)
  | [] => some []
  | [_] => none
  | [a, b] => tail2 a b
  | [a, b, c] => if c = pad then tail2 a b else tail3 a b c
  | a :: b :: c :: d :: rest =>
    if c = pad ∨ d = pad then
      if rest ≠ [] then none
      else if c = pad then (if d = pad then tail2 a b else none)
      else tail3 a b c
    else do
      let x ← quad a b c d
      let r ← decode rest
      some (x ++ r)

end HS.Wire.Base64

namespace HS.Wire

/-- `PublicKey::encode_base64` / `SecretKey::encode_base64`: `base64::encode(&self.0[..])`. -/
def encodeKey (k : List UInt8) : List UInt8 := Base64.encode k

/-- `PublicKey::decode_base64` (`n = 32`) / `SecretKey::decode_base64` (`n = 64`):
```
let bytes = base64::decode(s)?;
let array = bytes[..n].try_into().map_err(|_| InvalidLength)?;
```
The slice `bytes[..n]` **panics** when fewer than `n` bytes were decoded and silently drops the bytes
after the first `n` otherwise (the `try_into` of an exactly-`n`-byte slice cannot fail).
`checkedSlice = false` is the code as it is; `checkedSlice = true` is the repaired code
(`bytes.get(..n).ok_or(InvalidLength)?`), which turns the panic into an error and changes nothing else. -/
def decodeKey (checkedSlice : Bool) (n : Nat) (s : List UInt8) : Res (List UInt8) :=
  match Base64.decode s with
  | none => .err
  | some bytes =>
    if bytes.length < n then (if checkedSlice then .err else .panic)
    else .ok (bytes.take n)

/-- THE SWITCH: does the pinned tree use the checked slice in `decode_base64`?
`false` = code as it is (F3); flip to `true` together with the `fix:` commit. -/
def currentCheckedSlice : Bool := Gen.keySliceChecked

def decodePublicKey (checkedSlice : Bool) (s : List UInt8) : Res (List UInt8) := decodeKey checkedSlice 32 s
def decodeSecretKey (checkedSlice : Bool) (s : List UInt8) : Res (List UInt8) := decodeKey checkedSlice 64 s

end HS.Wire
