import HotstuffModel.Model.Bincode
/-!
# Digest pre-images (`impl Hash for …` in `consensus/src/messages.rs`, batch digest in
`mempool/src/processor.rs`)

Every digest in the system is `SHA-512(pre-image)[..32]`.  The pre-images are:
* block:   `author(32) ‖ le64 round ‖ payload digests (32 each) ‖ qc.hash(32)`
* vote/QC: `hash(32) ‖ le64 round`
* timeout and each TC entry: `le64 round ‖ le64 high_qc.round`
* batch:   the serialized `MempoolMessage::Batch` bytes (as received / as broadcast).
-/
namespace HS.Wire

def blockPre (author : List UInt8) (round : Nat) (payload : List (List UInt8)) (parent : List UInt8) :
    List UInt8 :=
  author ++ le64 round ++ payload.flatten ++ parent

def votePre (hash : List UInt8) (round : Nat) : List UInt8 := hash ++ le64 round

def timeoutPre (round hqRound : Nat) : List UInt8 := le64 round ++ le64 hqRound

def Block.pre (b : Block) : List UInt8 := blockPre b.author b.round b.payload b.qc.hash
def Vote.pre (v : Vote) : List UInt8 := votePre v.hash v.round
def QC.pre (q : QC) : List UInt8 := votePre q.hash q.round
def Timeout.pre (t : Timeout) : List UInt8 := timeoutPre t.round t.highQc.round
/-- The digest each `(author, signature, high_qc_round)` entry of a TC is verified against. -/
def TC.entryPre (t : TC) (v : List UInt8 × Sig × Nat) : List UInt8 := timeoutPre t.round v.2.2
/-- Pre-image of a batch digest: the bytes of the serialized `MempoolMessage::Batch`. -/
def batchPre (txs : List (List UInt8)) : List UInt8 := encMMsg (.batch txs)

/-- The pre-image a consensus message is signed over (`none`: carries no own signature). -/
def CMsg.pre : CMsg → Option (List UInt8)
  | .propose b => some b.pre
  | .vote v => some v.pre
  | .timeout t => some t.pre
  | .tc _ => none
  | .syncRequest _ _ => none

end HS.Wire
