import HotstuffModel.Generated.Guards
/-
Model of the task spawned by `consensus/src/synchronizer.rs`, `Synchronizer::new` (C07): the table of
suspended blocks, the table of outstanding parent requests WITH their timestamps, and the retry timer.
(The node model `Model/Node.lean` keeps the same two tables without time: there a retry is an event
the environment may fire at any moment.  Here the timer decision itself is modelled.)

Digests, block identities and authority names are numbers (the harness interns the real ones).

Code ↔ model:
* `rx_inner.recv()` branch  = `suspend`: `pending.insert(block.digest())` deduplicates; a waiter for
  the parent is started; the parent is requested from the block's AUTHOR, and stamped, only when
  `!requests.contains_key(&parent)`.
* `waiting.next()` branch   = `stored`: `notify_read(parent)` returns as soon as the parent is in the
  store; each waiting child is removed from `pending`, the parent from `requests`, and the child goes
  back to the core on the loop-back channel.  All waiters of one parent complete on the same write, so
  the model takes them in one step (in hand-over order; the code's `FuturesUnordered` may reorder them,
  the harness compares the set).
* timer branch              = `tick`: every request with `timestamp + sync_retry_delay < now`
  (`Gen.syncRetryDue`, regenerated from the source) is re-broadcast to all other members; the
  timestamp is NOT refreshed, so the request is repeated at every later tick while it is outstanding.
  (The code iterates a `HashMap`; the harness compares the set.)
-/
namespace HS.Sync

structure Req where
  parent : Nat
  ts : Nat
deriving DecidableEq, Repr

structure Wait where
  block : Nat
  parent : Nat
deriving DecidableEq, Repr

structure State where
  /-- `pending`: digests of the suspended blocks -/
  pending : List Nat := []
  /-- `requests`: parent digest ↦ time of the first request -/
  requests : List Req := []
  /-- `waiting`: the waiter futures, in hand-over order -/
  waiting : List Wait := []
deriving Repr

inductive Event where
  /-- `get_parent_block` did not find the parent of `block` (authored by `author`) -/
  | suspend (block parent author now : Nat)
  /-- the parent is written to the store -/
  | stored (parent : Nat)
  /-- the timer fires -/
  | tick (now : Nat)
deriving Repr

inductive Out where
  /-- `SyncRequest(parent, name)` sent to one member -/
  | request (to parent : Nat)
  /-- `SyncRequest(parent, name)` broadcast to every other member -/
  | broadcast (parent : Nat)
  /-- the block goes back to the core -/
  | loopback (block : Nat)
deriving DecidableEq, Repr

def hasReq (s : State) (parent : Nat) : Bool := s.requests.any (fun r => r.parent == parent)

/-- The requests the timer branch repeats at time `now`. -/
def due (delay : Nat) (rs : List Req) (now : Nat) : List Req :=
  rs.filter (fun r => decide (Gen.syncRetryDue r.ts delay now))

def step (delay : Nat) (s : State) : Event → State × List Out
  | .suspend block parent author now =>
    if s.pending.contains block then (s, [])
    else
      let s1 := { s with pending := block :: s.pending, waiting := s.waiting ++ [⟨block, parent⟩] }
      if hasReq s parent then (s1, [])
      else ({ s1 with requests := s.requests ++ [⟨parent, now⟩] }, [.request author parent])
  | .stored parent =>
    let done := s.waiting.filter (fun w => w.parent == parent)
    ({ pending := s.pending.filter (fun b => !(done.any (fun w => w.block == b))),
       requests := if done.isEmpty then s.requests else s.requests.filter (fun r => r.parent != parent),
       waiting := s.waiting.filter (fun w => w.parent != parent) },
     done.map (fun w => .loopback w.block))
  | .tick now => (s, (due delay s.requests now).map (fun r => .broadcast r.parent))

def run (delay : Nat) (s : State) : List Event → State × List Out
  | [] => (s, [])
  | e :: es =>
    let r := step delay s e
    let r' := run delay r.1 es
    (r'.1, r.2 ++ r'.2)

end HS.Sync
