import HotstuffModel.Generated.Quorum
import HotstuffModel.Proofs.Weight
import HotstuffModel.Model.Committee
import HotstuffModel.Proofs.Committee
import HotstuffModel.Properties.C17
